#!/usr/bin/env python3
"""Consistency test of the UF string prelude (govc/ufenc.go).

Random ground scenarios over concrete strings are generated; every asserted fact is TRUE (computed here with
Python's string semantics matching SMT-LIB), so the UF translation of the scenario must never be unsat.
An 'unsat' answer from any solver exposes an unsound axiom. usage: ufsanity.py [n] [seed]
"""
import random, subprocess, sys, os, tempfile

def lit(s):
    return '"' + ''.join(c if c not in '"\\' and 32 <= ord(c) < 127 else '\\u{%x}' % ord(c) for c in s) + '"'

def substr(s, i, n):
    if i < 0 or i >= len(s) or n <= 0:
        return ''
    return s[i:i + n]

def indexof(s, t):
    return s.find(t)

def gen(rng):
    alpha = 'AB{}:/'
    strs = [''.join(rng.choice(alpha) for _ in range(rng.randint(0, 6))) for _ in range(3)]
    names = ['x', 'y', 'z']
    out = ['(set-logic ALL)']
    for n, s in zip(names, strs):
        out.append('(declare-const %s String)' % n)
        out.append('(assert (= %s %s))' % (n, lit(s)))
    env = dict(zip(names, strs))
    terms = [(n, env[n]) for n in names]
    # build nested terms with known values
    for _ in range(rng.randint(2, 6)):
        op = rng.choice(['sub', 'cat', 'sub', 'chr'])
        if op == 'sub':
            t, v = rng.choice(terms)
            i = rng.randint(-1, len(v) + 1)
            n = rng.randint(-1, len(v) + 2)
            terms.append(('(str.substr %s %d %d)' % (t, i, n), substr(v, i, n)))
        elif op == 'cat':
            (t1, v1), (t2, v2) = rng.choice(terms), rng.choice(terms)
            terms.append(('(str.++ %s %s)' % (t1, t2), v1 + v2))
        else:
            c = rng.choice(alpha)
            terms.append(('(str.from_code %d)' % ord(c), c))
    # assert true facts about them
    for _ in range(rng.randint(3, 8)):
        k = rng.choice(['len', 'idx', 'pre', 'suf', 'has', 'eq', 'code', 'eqsub'])
        (t1, v1), (t2, v2) = rng.choice(terms), rng.choice(terms)
        if k == 'len':
            out.append('(assert (= (str.len %s) %d))' % (t1, len(v1)))
        elif k == 'idx':
            r = indexof(v1, v2)
            out.append('(assert (= (str.indexof %s %s 0) %s))' % (t1, t2, r if r >= 0 else '(- 1)'))
        elif k == 'pre':
            f = v1.startswith(v2)
            out.append('(assert (%s (str.prefixof %s %s)))' % ('and true' if f else 'not', t2, t1))
        elif k == 'suf':
            f = v1.endswith(v2)
            out.append('(assert (%s (str.suffixof %s %s)))' % ('and true' if f else 'not', t2, t1))
        elif k == 'has':
            f = v2 in v1
            out.append('(assert (%s (str.contains %s %s)))' % ('and true' if f else 'not', t1, t2))
        elif k == 'eq':
            f = v1 == v2
            out.append('(assert (%s (streq %s %s)))' % ('and true' if f else 'not', t1, t2))
        elif k == 'code' and v1:
            i = rng.randrange(len(v1))
            out.append('(assert (= (str.to_code (str.at %s %d)) %d))' % (t1, i, ord(v1[i])))
        elif k == 'eqsub':
            i = rng.randint(0, len(v1))
            n = len(v2)
            f = substr(v1, i, n) == v2 if n > 0 and i < len(v1) else (v2 == '')
            out.append('(assert (%s (streq (str.substr %s %d (- (+ %d %d) %d)) %s)))' % ('and true' if f else 'not', t1, i, i, n, i, t2))
    out.append('(check-sat)')
    return '\n'.join(out)

def one(args):
    k, seed = args
    rng = random.Random(seed * 100003 + k)
    govc = os.path.join(os.path.dirname(os.path.abspath(__file__)), '..', 'bin', 'govc')
    q = gen(rng)
    d = tempfile.mkdtemp(prefix='ufsanity-')
    try:
        f = os.path.join(d, 'q.smt2')
        open(f, 'w').write('(set-logic ALL)\n(define-fun streq ((a String) (b String)) Bool (= a b))\n' + q.replace('(set-logic ALL)\n', ''))
        nat = subprocess.run(['z3-new', '-smt2', '-T:5', f], capture_output=True, text=True).stdout.split('\n')[0]
        if nat != 'sat':
            return 'generator bug: native says %s\n%s' % (nat, q)
        uf = subprocess.run([govc, 'uf', f], capture_output=True, text=True).stdout
        fu = os.path.join(d, 'q.uf.smt2')
        open(fu, 'w').write(uf)
        for solver in (['z3-new', '-smt2', '-T:1', fu], ['z3', '-smt2', '-T:1', fu], ['cvc5', '--lang=smt2', '--tlimit=1000', fu]):
            r = subprocess.run(solver, capture_output=True, text=True).stdout.split('\n')[0]
            if r == 'unsat':
                return 'UNSOUND AXIOM: %s says unsat on a true scenario:\n%s\n' % (solver[0], q)
        return None
    finally:
        import shutil
        shutil.rmtree(d)

def main():
    import multiprocessing
    n = int(sys.argv[1]) if len(sys.argv) > 1 else 100
    seed = int(sys.argv[2]) if len(sys.argv) > 2 else 1
    with multiprocessing.Pool(16) as pool:
        res = pool.map(one, [(k, seed) for k in range(n)])
    bad = [r for r in res if r]
    for r in bad[:5]:
        print(r)
    print('ufsanity: %d scenarios, %d problems' % (n, len(bad)))
    sys.exit(1 if bad else 0)

if __name__ == '__main__':
    main()
