package main

import (
	"bytes"
	"context"
	"crypto/sha256"
	"encoding/hex"
	"encoding/json"
	"fmt"
	"os"
	"os/exec"
	"path/filepath"
	"strings"
	"sync"
	"time"
)

type solverSpec struct {
	name string
	args func(file string, timeoutS int) []string
}

var solvers = []solverSpec{
	{"z3-new", func(f string, t int) []string { return []string{"z3-new", "-smt2", fmt.Sprintf("-T:%d", t), f} }},
	{"z3", func(f string, t int) []string { return []string{"z3", "-smt2", fmt.Sprintf("-T:%d", t), f} }},
	{"cvc5", func(f string, t int) []string {
		return []string{"cvc5", "--lang=smt2", fmt.Sprintf("--tlimit=%d", t*1000), "--strings-exp", "--produce-models", f}
	}},
}

func (w *World) query(o *Obligation, model bool) string {
	var sb strings.Builder
	sb.WriteString("(set-option :produce-models true)\n(set-logic ALL)\n")
	var bl []string
	for i, l := range o.gen.lines[:o.NLines] {
		if o.Tags == nil || o.Tags[o.gen.lineTag[i]] {
			bl = append(bl, l)
		}
	}
	body := strings.Join(bl, "\n")
	tail := fmt.Sprintf("(assert %s)\n(assert (not %s))\n", o.Reach, o.Goal)
	text := body + tail
	for _, l := range w.basePrelude() {
		sb.WriteString(l)
		sb.WriteByte('\n')
	}
	// prelude entries: include only those whose symbols are referenced (transitively, in order)
	incl := make([]bool, len(w.prelude))
	hay := text
	for changed := true; changed; {
		changed = false
		for i, p := range w.prelude {
			if incl[i] {
				continue
			}
			for _, sym := range declaredSyms(p) {
				if strings.Contains(hay, sym) {
					incl[i] = true
					hay += p
					changed = true
					break
				}
			}
		}
	}
	for i, p := range w.prelude {
		if incl[i] {
			sb.WriteString(p)
			sb.WriteByte('\n')
		}
	}
	sb.WriteString(body)
	sb.WriteByte('\n')
	sb.WriteString(tail)
	sb.WriteString("(check-sat)\n")
	if model {
		sb.WriteString("(get-model)\n")
	}
	return sb.String()
}

var symCache = map[string][]string{}
var symMu sync.Mutex

func declaredSyms(p string) []string {
	symMu.Lock()
	defer symMu.Unlock()
	if s, ok := symCache[p]; ok {
		return s
	}
	var out []string
	for _, line := range strings.Split(p, "\n") {
		for _, kw := range []string{"(declare-fun ", "(declare-const ", "(declare-datatypes ((", "(define-fun "} {
			if strings.HasPrefix(line, kw) {
				rest := line[len(kw):]
				var sym string
				if strings.HasPrefix(rest, "|") {
					j := strings.Index(rest[1:], "|")
					sym = rest[:j+2]
				} else {
					j := strings.IndexAny(rest, " )")
					sym = rest[:j]
				}
				out = append(out, sym)
			}
		}
	}
	symCache[p] = out
	return out
}

type solveResult struct {
	Status string  `json:"status"` // unsat sat unknown
	Solver string  `json:"solver"`
	Time   float64 `json:"time"`
	Model  string  `json:"model,omitempty"`
}

type Discharger struct {
	tmp      string
	cacheDir string
	useCache bool
	timeout  int
	mu       sync.Mutex
	stats    map[string]int
	total    float64
	seq      int
}

func NewDischarger(cacheDir string, useCache bool, timeout int) *Discharger {
	tmp, _ := os.MkdirTemp("", "govc-q-")
	if cacheDir != "" {
		os.MkdirAll(cacheDir, 0o755)
	}
	return &Discharger{tmp: tmp, cacheDir: cacheDir, useCache: useCache, timeout: timeout, stats: map[string]int{}}
}

func (d *Discharger) Close() {
	if os.Getenv("GOVC_KEEP") == "" {
		os.RemoveAll(d.tmp)
	} else {
		fmt.Fprintln(os.Stderr, "queries kept in", d.tmp)
	}
}

// procSem bounds the number of solver processes running at once to the number of cores, so that a solver's
// wall-clock limit is not eaten by its neighbours.
var procSem = make(chan struct{}, 16)

func runSolver(ctx context.Context, s solverSpec, file string, timeout int) (string, string, float64) {
	select {
	case procSem <- struct{}{}:
		defer func() { <-procSem }()
	case <-ctx.Done():
		return "unknown", "cancelled", 0
	}
	t0 := time.Now()
	args := s.args(file, timeout)
	cctx, cancel := context.WithTimeout(ctx, time.Duration(timeout+2)*time.Second)
	defer cancel()
	cmd := exec.CommandContext(cctx, args[0], args[1:]...)
	var out bytes.Buffer
	cmd.Stdout = &out
	cmd.Stderr = &out
	cmd.Run()
	el := time.Since(t0).Seconds()
	txt := out.String()
	first := ""
	for _, l := range strings.Split(txt, "\n") {
		l = strings.TrimSpace(l)
		if l == "" || strings.HasPrefix(l, "WARNING") {
			continue
		}
		first = l
		break
	}
	switch first {
	case "unsat", "sat", "unknown":
		return first, txt, el
	case "timeout":
		return "unknown", txt, el
	}
	if strings.Contains(txt, "error") || first != "" {
		return "error", txt, el
	}
	return "unknown", txt, el
}

func (d *Discharger) Discharge(w *World, o *Obligation) {
	qtext := w.query(o, false)
	h := sha256.Sum256([]byte(qtext))
	hs := hex.EncodeToString(h[:])
	if d.useCache && d.cacheDir != "" {
		if b, err := os.ReadFile(filepath.Join(d.cacheDir, hs[:2], hs+".json")); err == nil {
			var r solveResult
			if json.Unmarshal(b, &r) == nil && r.Status == "unknown" && o.Kind == "vacuity" {
				// no contradiction was found in the assumptions within the limit last time; same text, same answer
				o.Status = "unknown"
				return
			}
			if json.Unmarshal(b, &r) == nil && r.Status == "sat" && o.Kind == "vacuity" {
				// a satisfiable vacuity query (the expected answer) stays satisfiable for the same text
				o.Status = "failed"
				return
			}
			if json.Unmarshal(b, &r) == nil && r.Status == "unsat" {
				o.Status, o.Solver, o.Time = "discharged", r.Solver+"(cached)", 0
				d.mu.Lock()
				d.stats[r.Solver+"(cached)"]++
				d.mu.Unlock()
				return
			}
		}
	}
	d.mu.Lock()
	d.seq++
	uniq := fmt.Sprintf("%s-%d", hs[:16], d.seq)
	d.mu.Unlock()
	file := filepath.Join(d.tmp, uniq+".smt2")
	os.WriteFile(file, []byte(qtext), 0o644)
	if os.Getenv("GOVC_KEEP") == "" {
		defer os.Remove(file)
	}
	ufile := filepath.Join(d.tmp, uniq+".uf.smt2")
	hasStr := strings.Contains(qtext, "String") || strings.Contains(qtext, "str.")
	if hasStr {
		os.WriteFile(ufile, []byte(toUF(qtext)), 0o644)
		if os.Getenv("GOVC_KEEP") == "" {
			defer os.Remove(ufile)
		}
	}

	record := func(r solveResult) {
		d.mu.Lock()
		if r.Status == "unsat" {
			d.stats[r.Solver]++
		}
		d.mu.Unlock()
		if r.Status == "unsat" && d.cacheDir != "" {
			dir := filepath.Join(d.cacheDir, hs[:2])
			os.MkdirAll(dir, 0o755)
			b, _ := json.Marshal(r)
			os.WriteFile(filepath.Join(dir, hs+".json"), b, 0o644)
		}
	}
	type variant struct {
		s   solverSpec
		uf  bool
		tmo int
	}
	type rr struct {
		v        variant
		res, txt string
		el       float64
	}
	runStage := func(vs []variant) (done bool, sat *rr, errs []string) {
		ctx, cancel := context.WithCancel(context.Background())
		defer cancel()
		ch := make(chan rr, len(vs))
		for _, v := range vs {
			v := v
			go func() {
				f := file
				if v.uf {
					f = ufile
				}
				r, t, e := runSolver(ctx, v.s, f, v.tmo)
				ch <- rr{v, r, t, e}
			}()
		}
		for range vs {
			r := <-ch
			d.mu.Lock()
			d.total += r.el
			d.mu.Unlock()
			name := r.v.s.name
			if r.v.uf {
				name += "/uf"
			}
			switch {
			case r.res == "unsat":
				o.Status, o.Solver, o.Time = "discharged", name, r.el
				record(solveResult{"unsat", name, r.el, ""})
				return true, nil, nil
			case r.res == "sat" && !r.v.uf:
				rc := r
				return false, &rc, nil
			case r.res == "error":
				errs = append(errs, name+": "+firstLines(r.txt, 3))
			}
		}
		return false, nil, errs
	}
	st1 := 3
	if d.timeout < st1 {
		st1 = d.timeout
	}
	stage1 := []variant{{solvers[0], false, st1}}
	if hasStr {
		stage1 = append(stage1, variant{solvers[0], true, st1})
	}
	done, sat, errs := runStage(stage1)
	if done {
		return
	}
	if o.Kind == "vacuity" && sat == nil {
		o.Status = "unknown"
		if d.cacheDir != "" {
			dir := filepath.Join(d.cacheDir, hs[:2])
			os.MkdirAll(dir, 0o755)
			b, _ := json.Marshal(solveResult{"unknown", "", 0, ""})
			os.WriteFile(filepath.Join(dir, hs+".json"), b, 0o644)
		}
		return
	}
	if sat == nil {
		// second stage: every back end on both encodings at once with the full limit; the first answer wins
		var vs []variant
		for _, sv := range []int{0, 2, 1} {
			vs = append(vs, variant{solvers[sv], false, d.timeout})
			if hasStr {
				vs = append(vs, variant{solvers[sv], true, d.timeout})
			}
		}
		var e2 []string
		done, sat, e2 = runStage(vs)
		if done {
			return
		}
		errs = append(errs, e2...)
	}
	if sat != nil && o.Kind == "vacuity" {
		o.Status = "failed"
		if d.cacheDir != "" {
			dir := filepath.Join(d.cacheDir, hs[:2])
			os.MkdirAll(dir, 0o755)
			b, _ := json.Marshal(solveResult{"sat", sat.v.s.name, sat.el, ""})
			os.WriteFile(filepath.Join(dir, hs+".json"), b, 0o644)
		}
		return
	}
	if sat != nil {
		_, mt, _ := runSolver(context.Background(), sat.v.s, mfileFor(d, w, o, uniq), d.timeout)
		o.Status, o.Solver, o.Model = "failed", sat.v.s.name, mt
		return
	}
	o.Status = "unknown"
	if len(errs) > 0 {
		o.Model = "solver errors: " + strings.Join(errs, " | ")
	}
	// undecided: look for a candidate counterexample in the quantifier-free part of the query (axioms and
	// quantified hypotheses dropped). Such a model is only a candidate; it counts when the replay confirms it.
	if _, ok := replaySpecs[o.Fn]; ok && o.Kind != "vacuity" {
		var keep []string
		for _, l := range strings.Split(qtext, "\n") {
			if strings.HasPrefix(l, "(assert") && (strings.Contains(l, "(forall ") || strings.Contains(l, "(exists ")) && !strings.HasPrefix(l, "(assert (not ") {
				continue
			}
			keep = append(keep, l)
		}
		mq := strings.Join(keep, "\n")
		mf := filepath.Join(d.tmp, uniq+".cand.smt2")
		os.WriteFile(mf, []byte(mq), 0o644)
		res, _, _ := runSolver(context.Background(), solvers[0], mf, 10)
		os.Remove(mf)
		if res == "sat" {
			o.ModelQuery = strings.TrimSuffix(strings.TrimSpace(mq), "(check-sat)")
			o.Solver = "z3-new"
		}
	}
}

func firstLines(s string, n int) string {
	l := strings.Split(s, "\n")
	if len(l) > n {
		l = l[:n]
	}
	return strings.Join(l, " / ")
}

func (d *Discharger) RunAll(w *World, obls []*Obligation, par int) {
	sem := make(chan struct{}, par)
	var wg sync.WaitGroup
	for _, o := range obls {
		o := o
		wg.Add(1)
		sem <- struct{}{}
		go func() {
			defer wg.Done()
			d.Discharge(w, o)
			<-sem
		}()
	}
	wg.Wait()
}

func mfileFor(d *Discharger, w *World, o *Obligation, hs string) string {
	mfile := filepath.Join(d.tmp, hs+".m.smt2")
	os.WriteFile(mfile, []byte(w.query(o, true)), 0o644)
	return mfile
}
