package main

import (
	"bytes"
	"context"
	"crypto/sha256"
	"encoding/hex"
	"encoding/json"
	"fmt"
	"os"
	"os/exec"
	"path/filepath"
	"strings"
	"sync"
	"time"
)

type solverSpec struct {
	name string
	args func(file string, timeoutS int) []string
}

var solvers = []solverSpec{
	{"z3-new", func(f string, t int) []string { return []string{"z3-new", "-smt2", fmt.Sprintf("-T:%d", t), f} }},
	{"z3", func(f string, t int) []string { return []string{"z3", "-smt2", fmt.Sprintf("-T:%d", t), f} }},
	{"cvc5", func(f string, t int) []string {
		return []string{"cvc5", "--lang=smt2", fmt.Sprintf("--tlimit=%d", t*1000), "--strings-exp", "--produce-models", f}
	}},
}

func (w *World) query(o *Obligation, model bool) string {
	var sb strings.Builder
	sb.WriteString("(set-option :produce-models true)\n(set-logic ALL)\n")
	body := strings.Join(o.gen.lines[:o.NLines], "\n")
	tail := fmt.Sprintf("(assert %s)\n(assert (not %s))\n", o.Reach, o.Goal)
	text := body + tail
	for _, l := range w.basePrelude() {
		sb.WriteString(l)
		sb.WriteByte('\n')
	}
	// prelude entries: include only those whose symbols are referenced (transitively, in order)
	incl := make([]bool, len(w.prelude))
	hay := text
	for changed := true; changed; {
		changed = false
		for i, p := range w.prelude {
			if incl[i] {
				continue
			}
			for _, sym := range declaredSyms(p) {
				if strings.Contains(hay, sym) {
					incl[i] = true
					hay += p
					changed = true
					break
				}
			}
		}
	}
	for i, p := range w.prelude {
		if incl[i] {
			sb.WriteString(p)
			sb.WriteByte('\n')
		}
	}
	sb.WriteString(body)
	sb.WriteByte('\n')
	sb.WriteString(tail)
	sb.WriteString("(check-sat)\n")
	if model {
		sb.WriteString("(get-model)\n")
	}
	return sb.String()
}

var symCache = map[string][]string{}
var symMu sync.Mutex

func declaredSyms(p string) []string {
	symMu.Lock()
	defer symMu.Unlock()
	if s, ok := symCache[p]; ok {
		return s
	}
	var out []string
	for _, line := range strings.Split(p, "\n") {
		for _, kw := range []string{"(declare-fun ", "(declare-const ", "(declare-datatypes ((", "(define-fun "} {
			if strings.HasPrefix(line, kw) {
				rest := line[len(kw):]
				var sym string
				if strings.HasPrefix(rest, "|") {
					j := strings.Index(rest[1:], "|")
					sym = rest[:j+2]
				} else {
					j := strings.IndexAny(rest, " )")
					sym = rest[:j]
				}
				out = append(out, sym)
			}
		}
	}
	symCache[p] = out
	return out
}

type solveResult struct {
	Status string  `json:"status"` // unsat sat unknown
	Solver string  `json:"solver"`
	Time   float64 `json:"time"`
	Model  string  `json:"model,omitempty"`
}

type Discharger struct {
	tmp      string
	cacheDir string
	useCache bool
	timeout  int
	mu       sync.Mutex
	stats    map[string]int
	total    float64
}

func NewDischarger(cacheDir string, useCache bool, timeout int) *Discharger {
	tmp, _ := os.MkdirTemp("", "govc-q-")
	if cacheDir != "" {
		os.MkdirAll(cacheDir, 0o755)
	}
	return &Discharger{tmp: tmp, cacheDir: cacheDir, useCache: useCache, timeout: timeout, stats: map[string]int{}}
}

func (d *Discharger) Close() { os.RemoveAll(d.tmp) }

func runSolver(ctx context.Context, s solverSpec, file string, timeout int) (string, string, float64) {
	t0 := time.Now()
	args := s.args(file, timeout)
	cctx, cancel := context.WithTimeout(ctx, time.Duration(timeout+2)*time.Second)
	defer cancel()
	cmd := exec.CommandContext(cctx, args[0], args[1:]...)
	var out bytes.Buffer
	cmd.Stdout = &out
	cmd.Stderr = &out
	cmd.Run()
	el := time.Since(t0).Seconds()
	txt := out.String()
	first := strings.TrimSpace(strings.SplitN(txt, "\n", 2)[0])
	switch first {
	case "unsat", "sat", "unknown":
		return first, txt, el
	case "timeout":
		return "unknown", txt, el
	}
	if strings.Contains(txt, "error") || first != "" {
		return "error", txt, el
	}
	return "unknown", txt, el
}

func (d *Discharger) Discharge(w *World, o *Obligation) {
	qtext := w.query(o, false)
	h := sha256.Sum256([]byte(qtext))
	hs := hex.EncodeToString(h[:])
	if d.useCache && d.cacheDir != "" {
		if b, err := os.ReadFile(filepath.Join(d.cacheDir, hs[:2], hs+".json")); err == nil {
			var r solveResult
			if json.Unmarshal(b, &r) == nil && r.Status == "unsat" {
				o.Status, o.Solver, o.Time = "discharged", r.Solver+"(cached)", 0
				d.mu.Lock()
				d.stats[r.Solver+"(cached)"]++
				d.mu.Unlock()
				return
			}
		}
	}
	file := filepath.Join(d.tmp, hs+".smt2")
	os.WriteFile(file, []byte(qtext), 0o644)
	defer os.Remove(file)

	record := func(r solveResult) {
		d.mu.Lock()
		d.total += r.Time
		if r.Status == "unsat" {
			d.stats[r.Solver]++
		}
		d.mu.Unlock()
		if r.Status == "unsat" && d.cacheDir != "" {
			dir := filepath.Join(d.cacheDir, hs[:2])
			os.MkdirAll(dir, 0o755)
			b, _ := json.Marshal(r)
			os.WriteFile(filepath.Join(dir, hs+".json"), b, 0o644)
		}
	}
	// stage 1: z3-new alone, short
	st1 := 3
	if d.timeout < st1 {
		st1 = d.timeout
	}
	res, txt, el := runSolver(context.Background(), solvers[0], file, st1)
	if res == "unsat" {
		o.Status, o.Solver, o.Time = "discharged", "z3-new", el
		record(solveResult{"unsat", "z3-new", el, ""})
		return
	}
	var satModel, satSolver string
	if res == "sat" {
		_, mt, _ := runSolver(context.Background(), solvers[0], mfileFor(d, w, o, hs), d.timeout)
		o.Status, o.Solver, o.Model = "failed", "z3-new", mt
		return
	}
	if res == "error" {
		o.Model = "solver error (z3-new): " + firstLines(txt, 5)
	}
	// stage 2: race all
	ctx, cancel := context.WithCancel(context.Background())
	type rr struct {
		s        string
		res, txt string
		el       float64
	}
	ch := make(chan rr, len(solvers))
	for _, s := range solvers {
		s := s
		go func() {
			r, t, e := runSolver(ctx, s, file, d.timeout)
			ch <- rr{s.name, r, t, e}
		}()
	}
	var errs []string
	got := 0
	for got < len(solvers) {
		r := <-ch
		got++
		d.mu.Lock()
		d.total += r.el
		d.mu.Unlock()
		if r.res == "unsat" {
			cancel()
			o.Status, o.Solver, o.Time = "discharged", r.s, r.el
			record(solveResult{"unsat", r.s, r.el, ""})
			return
		}
		if r.res == "sat" && satSolver == "" {
			satSolver = r.s
			cancel()
		}
		if r.res == "error" {
			errs = append(errs, r.s+": "+firstLines(r.txt, 3))
		}
	}
	cancel()
	if satSolver != "" {
		// fetch a model
		mfile := filepath.Join(d.tmp, hs+".m.smt2")
		os.WriteFile(mfile, []byte(w.query(o, true)), 0o644)
		for _, s := range solvers {
			if s.name == satSolver {
				_, mt, _ := runSolver(context.Background(), s, mfile, d.timeout)
				satModel = mt
			}
		}
		os.Remove(mfile)
		o.Status, o.Solver, o.Model = "failed", satSolver, satModel
		return
	}
	o.Status = "unknown"
	if len(errs) > 0 {
		o.Model = "solver errors: " + strings.Join(errs, " | ")
	}
}

func firstLines(s string, n int) string {
	l := strings.Split(s, "\n")
	if len(l) > n {
		l = l[:n]
	}
	return strings.Join(l, " / ")
}

func (d *Discharger) RunAll(w *World, obls []*Obligation, par int) {
	sem := make(chan struct{}, par)
	var wg sync.WaitGroup
	for _, o := range obls {
		o := o
		wg.Add(1)
		sem <- struct{}{}
		go func() {
			defer wg.Done()
			d.Discharge(w, o)
			<-sem
		}()
	}
	wg.Wait()
}

func mfileFor(d *Discharger, w *World, o *Obligation, hs string) string {
	mfile := filepath.Join(d.tmp, hs+".m.smt2")
	os.WriteFile(mfile, []byte(w.query(o, true)), 0o644)
	return mfile
}
