package main

// UF encoding of strings: the same query with sort String replaced by an uninterpreted sort Str
// with len/code functions and (sound, incomplete) quantified axioms for the operations used.
// Native SMT-LIB strings find counterexamples; this encoding finds proofs when quantifiers are involved.

import (
	"fmt"
	"sort"
	"strings"
)

type sx struct {
	atom string
	list []*sx
	isL  bool
}

func parseSx(text string) []*sx {
	var stack [][]*sx
	cur := []*sx{}
	i := 0
	for i < len(text) {
		c := text[i]
		switch {
		case c == ' ' || c == '\n' || c == '\t' || c == '\r':
			i++
		case c == ';':
			for i < len(text) && text[i] != '\n' {
				i++
			}
		case c == '(':
			stack = append(stack, cur)
			cur = []*sx{}
			i++
		case c == ')':
			l := &sx{list: cur, isL: true}
			cur = stack[len(stack)-1]
			stack = stack[:len(stack)-1]
			cur = append(cur, l)
			i++
		case c == '|':
			j := i + 1
			for text[j] != '|' {
				j++
			}
			cur = append(cur, &sx{atom: text[i : j+1]})
			i = j + 1
		case c == '"':
			j := i + 1
			for {
				if text[j] == '"' {
					if j+1 < len(text) && text[j+1] == '"' {
						j += 2
						continue
					}
					break
				}
				j++
			}
			cur = append(cur, &sx{atom: text[i : j+1]})
			i = j + 1
		default:
			j := i
			for j < len(text) && !strings.ContainsRune(" \n\t\r()", rune(text[j])) {
				j++
			}
			cur = append(cur, &sx{atom: text[i:j]})
			i = j
		}
	}
	return cur
}

func (s *sx) String() string {
	var sb strings.Builder
	s.write(&sb)
	return sb.String()
}

func (s *sx) write(sb *strings.Builder) {
	if !s.isL {
		sb.WriteString(s.atom)
		return
	}
	sb.WriteByte('(')
	for i, c := range s.list {
		if i > 0 {
			sb.WriteByte(' ')
		}
		c.write(sb)
	}
	sb.WriteByte(')')
}

var ufOps = map[string]string{
	"str.len": "s.len", "str.++": "s.cat", "str.substr": "s.sub", "str.prefixof": "s.pre", "str.suffixof": "s.suf",
	"str.indexof": "s.idx", "str.contains": "s.has", "str.from_code": "s.chr", "str.<": "s.lt", "str.<=": "s.le",
}

func decodeLit(a string) []int {
	body := a[1 : len(a)-1]
	var out []int
	for i := 0; i < len(body); i++ {
		if strings.HasPrefix(body[i:], "\\u{") {
			j := strings.Index(body[i:], "}")
			var v int
			fmt.Sscanf(body[i+3:i+j], "%x", &v)
			out = append(out, v)
			i += j
			continue
		}
		if body[i] == '"' && i+1 < len(body) && body[i+1] == '"' {
			out = append(out, '"')
			i++
			continue
		}
		out = append(out, int(body[i]))
	}
	return out
}

type ufCtx struct {
	lits       map[string][]int
	consts     []string
	constNames map[string]string
}

func (u *ufCtx) litName(a string) string {
	codes := decodeLit(a)
	if len(codes) == 0 {
		return "s.empty"
	}
	var sb strings.Builder
	sb.WriteString("|lit:")
	for _, c := range codes {
		if c > 0x20 && c < 0x7f && c != '|' && c != '\\' {
			sb.WriteByte(byte(c))
		} else {
			fmt.Fprintf(&sb, "<%x>", c)
		}
	}
	sb.WriteString("|")
	u.lits[sb.String()] = codes
	return sb.String()
}

func (u *ufCtx) rw(s *sx) *sx {
	if !s.isL {
		switch {
		case s.atom == "String":
			return &sx{atom: "Str"}
		case strings.HasPrefix(s.atom, "\""):
			return &sx{atom: u.litName(s.atom)}
		}
		return s
	}
	if len(s.list) > 0 && !s.list[0].isL {
		h := s.list[0].atom
		// (str.to_code (str.at x i)) -> (s.code x i)
		if h == "str.to_code" && len(s.list) == 2 && s.list[1].isL && len(s.list[1].list) == 3 && s.list[1].list[0].atom == "str.at" {
			return &sx{isL: true, list: []*sx{{atom: "s.code"}, u.rw(s.list[1].list[1]), u.rw(s.list[1].list[2])}}
		}
		if h == "str.to_code" {
			return &sx{isL: true, list: []*sx{{atom: "s.code"}, u.rw(s.list[1]), {atom: "0"}}}
		}
		if h == "str.at" {
			return &sx{isL: true, list: []*sx{{atom: "s.sub"}, u.rw(s.list[1]), u.rw(s.list[2]), {atom: "1"}}}
		}
		if n, ok := ufOps[h]; ok {
			out := &sx{isL: true, list: []*sx{{atom: n}}}
			for _, c := range s.list[1:] {
				out.list = append(out.list, u.rw(c))
			}
			if h == "str.indexof" {
				// only from-index 0 is axiomatised; other offsets become a distinct uninterpreted function
				if len(s.list) == 4 && s.list[3].atom != "0" {
					out.list[0] = &sx{atom: "s.idxfrom"}
				} else {
					out.list = out.list[:3]
				}
			}
			return out
		}
	}
	// ((as const (Array K Str)) v) with a non-literal default: cvc5 wants a value there; use a named array with an axiom
	if len(s.list) == 2 && s.list[0].isL && len(s.list[0].list) == 3 && s.list[0].list[0].atom == "as" && s.list[0].list[1].atom == "const" {
		srt := u.rw(s.list[0].list[2])
		dv := u.rw(s.list[1])
		if strings.Contains(srt.String(), "Str") {
			name := fmt.Sprintf("|constarr:%d|", len(u.consts))
			key := srt.String() + "/" + dv.String()
			if n, ok := u.constNames[key]; ok {
				return &sx{atom: n}
			}
			u.constNames[key] = name
			ks := srt.list[1].String()
			u.consts = append(u.consts, fmt.Sprintf("(declare-const %s %s)\n(assert (forall ((i %s)) (! (= (select %s i) %s) :pattern ((select %s i)))))", name, srt.String(), ks, name, dv.String(), name))
			return &sx{atom: name}
		}
	}
	out := &sx{isL: true}
	for _, c := range s.list {
		out.list = append(out.list, u.rw(c))
	}
	return out
}

const ufPrelude = `(declare-sort Str 0)
(declare-fun s.len (Str) Int)
(declare-fun s.code (Str Int) Int)
(declare-const s.empty Str)
(declare-fun s.cat (Str Str) Str)
(declare-fun s.sub (Str Int Int) Str)
(declare-fun s.pre (Str Str) Bool)
(declare-fun s.suf (Str Str) Bool)
(declare-fun s.idx (Str Str) Int)
(declare-fun s.idxfrom (Str Str Int) Int)
(declare-fun s.has (Str Str) Bool)
(declare-fun s.chr (Int) Str)
(declare-fun s.lt (Str Str) Bool)
(declare-fun s.le (Str Str) Bool)
(declare-fun s.occ (Str Str Int) Bool)
(declare-fun s.w1 (Str Str) Int)
(declare-fun s.w2 (Str Str Int) Int)
(assert (= (s.len s.empty) 0))
(assert (forall ((s Str)) (! (and (>= (s.len s) 0) (=> (= (s.len s) 0) (= s s.empty))) :pattern ((s.len s)))))
; extensionality with a witness index, triggered by the string equalities written in specifications (streq)
(declare-fun streq (Str Str) Bool)
(assert (forall ((a Str) (b Str)) (! (= (streq a b) (= a b)) :pattern ((streq a b)))))
(assert (forall ((a Str) (b Str)) (! (=> (and (= (s.len a) (s.len b)) (=> (and (<= 0 (s.w1 a b)) (< (s.w1 a b) (s.len a))) (= (s.code a (s.w1 a b)) (s.code b (s.w1 a b))))) (= a b)) :pattern ((streq a b)))))
; concatenation
(assert (forall ((a Str) (b Str)) (! (= (s.len (s.cat a b)) (+ (s.len a) (s.len b))) :pattern ((s.cat a b)))))
(assert (forall ((a Str) (b Str) (i Int)) (! (and (=> (and (<= 0 i) (< i (s.len a))) (= (s.code (s.cat a b) i) (s.code a i))) (=> (and (<= (s.len a) i) (< i (+ (s.len a) (s.len b)))) (= (s.code (s.cat a b) i) (s.code b (- i (s.len a)))))) :pattern ((s.code (s.cat a b) i)))))
(assert (forall ((a Str) (b Str) (i Int)) (! (=> (and (<= 0 i) (< i (s.len a))) (= (s.code (s.cat a b) i) (s.code a i))) :pattern ((s.cat a b) (s.code a i)))))
(assert (forall ((a Str) (b Str) (i Int)) (! (=> (and (<= 0 i) (< i (s.len b))) (= (s.code (s.cat a b) (+ (s.len a) i)) (s.code b i))) :pattern ((s.cat a b) (s.code b i)))))
(assert (forall ((a Str)) (! (= (s.cat a s.empty) a) :pattern ((s.cat a s.empty)))))
(assert (forall ((a Str)) (! (= (s.cat s.empty a) a) :pattern ((s.cat s.empty a)))))
; substring (SMT-LIB semantics)
(assert (forall ((s Str) (i Int) (n Int)) (! (ite (and (<= 0 i) (< i (s.len s)) (> n 0)) (= (s.len (s.sub s i n)) (ite (<= n (- (s.len s) i)) n (- (s.len s) i))) (= (s.sub s i n) s.empty)) :pattern ((s.sub s i n)))))
(assert (forall ((s Str) (i Int) (n Int) (k Int)) (! (=> (and (<= 0 i) (<= 0 k) (< k (s.len (s.sub s i n)))) (= (s.code (s.sub s i n) k) (s.code s (+ i k)))) :pattern ((s.code (s.sub s i n) k)))))
(assert (forall ((s Str) (i Int) (n Int) (k Int)) (! (=> (and (<= 0 i) (<= i k) (< (- k i) (s.len (s.sub s i n)))) (= (s.code (s.sub s i n) (- k i)) (s.code s k))) :pattern ((s.sub s i n) (s.code s k)))))
(assert (forall ((s Str)) (! (= (s.sub s 0 (s.len s)) s) :pattern ((s.sub s 0 (s.len s))))))
; occurrence of t in s at offset j
(assert (forall ((s Str) (t Str) (j Int)) (! (=> (s.occ s t j) (and (<= 0 j) (<= (+ j (s.len t)) (s.len s)))) :pattern ((s.occ s t j)))))
(assert (forall ((s Str) (t Str) (j Int) (k Int)) (! (=> (and (s.occ s t j) (<= 0 k) (< k (s.len t))) (= (s.code s (+ j k)) (s.code t k))) :pattern ((s.occ s t j) (s.code t k)))))
(assert (forall ((s Str) (t Str) (j Int)) (! (=> (and (<= 0 j) (<= (+ j (s.len t)) (s.len s)) (=> (and (<= 0 (s.w2 s t j)) (< (s.w2 s t j) (s.len t))) (= (s.code s (+ j (s.w2 s t j))) (s.code t (s.w2 s t j))))) (s.occ s t j)) :pattern ((s.occ s t j)))))
; substring equality is an occurrence; occurrences shift under substrings
(assert (forall ((s Str) (t Str) (j Int) (n Int)) (! (=> (and (streq (s.sub s j n) t) (= n (s.len t)) (<= 0 j) (<= (+ j n) (s.len s))) (s.occ s t j)) :pattern ((streq (s.sub s j n) t)))))
(assert (forall ((s Str) (t Str) (j Int)) (! (=> (s.occ s t j) (= (s.sub s j (s.len t)) t)) :pattern ((s.occ s t j)))))
(assert (forall ((s Str) (t Str) (j Int) (a Int) (n Int)) (! (=> (and (s.occ (s.sub s a n) t j) (<= 0 a) (<= a (s.len s))) (s.occ s t (+ a j))) :pattern ((s.occ (s.sub s a n) t j)))))
(assert (forall ((s Str) (t Str) (j Int) (a Int) (n Int)) (! (=> (and (s.occ s t j) (<= 0 a) (<= a j) (<= (+ j (s.len t)) (+ a n)) (<= (+ a n) (s.len s))) (s.occ (s.sub s a n) t (- j a))) :pattern ((s.occ s t j) (s.sub s a n)))))
; prefix / suffix
(assert (forall ((p Str) (s Str)) (! (= (s.pre p s) (s.occ s p 0)) :pattern ((s.pre p s)))))
(assert (forall ((p Str) (s Str)) (! (= (s.suf p s) (and (<= (s.len p) (s.len s)) (s.occ s p (- (s.len s) (s.len p))))) :pattern ((s.suf p s)))))
; first occurrence
(assert (forall ((s Str) (t Str)) (! (and (>= (s.idx s t) (- 1)) (=> (>= (s.idx s t) 0) (s.occ s t (s.idx s t)))) :pattern ((s.idx s t)))))
(assert (forall ((s Str) (t Str) (j Int)) (! (=> (s.occ s t j) (and (>= (s.idx s t) 0) (<= (s.idx s t) j))) :pattern ((s.idx s t) (s.occ s t j)))))
(assert (forall ((s Str) (t Str)) (! (= (s.has s t) (>= (s.idx s t) 0)) :pattern ((s.has s t)))))
; one-character strings
(assert (forall ((c Int)) (! (=> (<= 0 c) (and (= (s.len (s.chr c)) 1) (= (s.code (s.chr c) 0) c))) :pattern ((s.chr c)))))
`

// toUF rewrites a native-string query into the UF encoding.
func toUF(query string) string {
	u := &ufCtx{lits: map[string][]int{}, constNames: map[string]string{}}
	forms := parseSx(query)
	var body strings.Builder
	for _, f := range forms {
		if f.isL && len(f.list) > 0 && (f.list[0].atom == "set-logic" || f.list[0].atom == "set-option") {
			continue
		}
		if f.isL && len(f.list) > 1 && f.list[0].atom == "define-fun" && f.list[1].atom == "streq" {
			continue
		}
		body.WriteString(u.rw(f).String())
		body.WriteByte('\n')
	}
	var sb strings.Builder
	sb.WriteString("(set-option :produce-models true)\n(set-logic ALL)\n")
	sb.WriteString(ufPrelude)
	var names []string
	for n := range u.lits {
		names = append(names, n)
	}
	sort.Strings(names)
	for _, n := range names {
		codes := u.lits[n]
		fmt.Fprintf(&sb, "(declare-const %s Str)\n(assert (= (s.len %s) %d))\n", n, n, len(codes))
		for i, c := range codes {
			fmt.Fprintf(&sb, "(assert (= (s.code %s %d) %d))\n", n, i, c)
		}
	}
	// named constant arrays must be declared after the sorts they use: split the body after the last datatype declaration
	b := body.String()
	cut := 0
	if i := strings.LastIndex(b, "(declare-datatypes"); i >= 0 {
		cut = i + strings.Index(b[i:], "\n") + 1
	}
	sb.WriteString(b[:cut])
	for _, c := range u.consts {
		sb.WriteString(c)
		sb.WriteByte('\n')
	}
	sb.WriteString(b[cut:])
	return sb.String()
}
