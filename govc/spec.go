package main

// Contract language: parsed from //@ comment lines in /repo/**/contracts_verif.go
// (build tag verif) and from /verif/spec/extern/*.spec (assumed contracts of
// functions outside the module).
//
//   //@ pred name(a T, b U) = expr
//   //@ uf name(T, U) R                    uninterpreted function
//   //@ ghost Type.field T                 ghost field
//   //@ global expr                        assumed global invariant (see main.go: proved by init obligations)
//   //@ fn Recv.Name                       (or fn Name, fn Name$1)
//   //@   requires [C01] label: expr
//   //@   ensures  [C01,C02] label: expr
//   //@   xensures [C16] label: expr       exceptional postcondition
//   //@   inv 1 [C02] label: expr          loop invariant of loop ordinal 1
//   //@   modifies key: e1, e2             footprint narrowing for heap key
//   //@   lock R|W|none
//   //@   pure | nopanic | trusted | mayPanic
//
// Expression syntax: Go-like with ==>, <==>, forall x T :: e, exists x T :: e,
// old(e), result, result0.., len, in(k,m), builtin helpers (see specsem.go).

import (
	"fmt"
	"strconv"
	"strings"
	"unicode"
)

type Expr interface{}

type (
	EIdent struct{ Name string }
	EInt   struct{ V string }
	EStr   struct{ V string }
	EBool  struct{ V bool }
	ENil   struct{}
	EUnary struct {
		Op string
		X  Expr
	}
	EBinary struct {
		Op   string
		X, Y Expr
	}
	ECall struct {
		Fn   string
		Args []Expr
	}
	ESel struct {
		X Expr
		F string
	}
	EIndex struct{ X, I Expr }
	ESlice struct{ X, Lo, Hi Expr }
	EQuant struct {
		Forall bool
		Vars   []Param
		Body   Expr
	}
	EIte struct{ C, A, B Expr }
)

type Param struct {
	Name string
	Type string
}

type Clause struct {
	Kind   string // requires ensures xensures inv modifies
	Loop   int
	Label  string
	Props  []string
	Src    string
	E      Expr
	Key    string // for modifies
	Refs   []Expr // for modifies
	Rename map[string]string
	File   string
	Line   int
}

type Contract struct {
	Key        string
	Pkg        string
	Clauses    []*Clause
	Lock       string
	SafeProps  []string // extra property tags for the safe.* obligations of the function (nopanic [Cxx])
	Flags      map[string]bool
	Params     []string // for extern specs: parameter names
	Results    []string
	Implements []string
	Returns    []string
	File       string
	Line       int
}

type Pred struct {
	Opaque bool
	Name   string
	Params []Param
	Body   Expr
	Src    string
	Pkg    string
	Ret    string // declared result type (recursive definitions)
}

type UF struct {
	Name string
	Args []string
	Ret  string
	Pkg  string
}

type GhostField struct {
	Type, Field, Sort string
	Pkg               string
}

type SpecFile struct {
	Pkg       string
	Contracts []*Contract
	Preds     []*Pred
	UFs       []*UF
	Ghosts    []*GhostField
	Globals   []*Clause
	Axioms    []*Clause
}

// ---------------------------------------------------------------- lexer

type tok struct {
	k string // id int str op eof
	v string
}

func lex(s string) ([]tok, error) {
	var out []tok
	i := 0
	for i < len(s) {
		c := s[i]
		switch {
		case c == ' ' || c == '\t' || c == '\n':
			i++
		case unicode.IsLetter(rune(c)) || c == '_':
			j := i
			for j < len(s) && (unicode.IsLetter(rune(s[j])) || unicode.IsDigit(rune(s[j])) || s[j] == '_' || s[j] == '$') {
				j++
			}
			out = append(out, tok{"id", s[i:j]})
			i = j
		case c >= '0' && c <= '9':
			j := i
			for j < len(s) && (s[j] >= '0' && s[j] <= '9' || s[j] == 'x' || (s[j] >= 'a' && s[j] <= 'f') || (s[j] >= 'A' && s[j] <= 'F')) {
				j++
			}
			v, err := strconv.ParseInt(s[i:j], 0, 64)
			if err != nil {
				return nil, fmt.Errorf("bad int %q", s[i:j])
			}
			out = append(out, tok{"int", strconv.FormatInt(v, 10)})
			i = j
		case c == '"':
			j := i + 1
			for j < len(s) && s[j] != '"' {
				if s[j] == '\\' {
					j++
				}
				j++
			}
			if j >= len(s) {
				return nil, fmt.Errorf("unterminated string")
			}
			v, err := strconv.Unquote(s[i : j+1])
			if err != nil {
				return nil, fmt.Errorf("bad string %s", s[i:j+1])
			}
			out = append(out, tok{"str", v})
			i = j + 1
		case c == '\'':
			j := i + 1
			for j < len(s) && s[j] != '\'' {
				if s[j] == '\\' {
					j++
				}
				j++
			}
			v, _, _, err := strconv.UnquoteChar(s[i+1:j], '\'')
			if err != nil {
				return nil, fmt.Errorf("bad char")
			}
			out = append(out, tok{"int", strconv.Itoa(int(v))})
			i = j + 1
		default:
			ops := []string{"<==>", "==>", "::", "&&", "||", "==", "!=", "<=", ">=", "++", "+", "-", "*", "/", "%", "<", ">", "!", "(", ")", "[", "]", ",", ".", ":", "?", "{", "}"}
			found := false
			for _, op := range ops {
				if strings.HasPrefix(s[i:], op) {
					out = append(out, tok{"op", op})
					i += len(op)
					found = true
					break
				}
			}
			if !found {
				return nil, fmt.Errorf("unexpected char %q at %d in %q", c, i, s)
			}
		}
	}
	out = append(out, tok{"eof", ""})
	return out, nil
}

// ---------------------------------------------------------------- parser

type parser struct {
	t []tok
	p int
}

func (p *parser) peek() tok { return p.t[p.p] }
func (p *parser) next() tok { t := p.t[p.p]; p.p++; return t }
func (p *parser) isOp(v string) bool {
	return p.t[p.p].k == "op" && p.t[p.p].v == v
}
func (p *parser) expect(v string) error {
	if !p.isOp(v) {
		return fmt.Errorf("expected %q, got %q", v, p.peek().v)
	}
	p.p++
	return nil
}

func ParseExpr(s string) (Expr, error) {
	t, err := lex(s)
	if err != nil {
		return nil, err
	}
	p := &parser{t: t}
	e, err := p.expr(0)
	if err != nil {
		return nil, fmt.Errorf("%v in %q", err, s)
	}
	if p.peek().k != "eof" {
		return nil, fmt.Errorf("trailing %q in %q", p.peek().v, s)
	}
	return e, nil
}

var binPrec = map[string]int{
	"<==>": 1, "==>": 2, "||": 3, "&&": 4,
	"==": 5, "!=": 5, "<": 5, "<=": 5, ">": 5, ">=": 5,
	"+": 6, "-": 6, "++": 6, "*": 7, "/": 7, "%": 7,
}

func (p *parser) typeStr() (string, error) {
	// type: sequence of tokens up to '::' or ',' at depth 0
	var sb strings.Builder
	depth := 0
	for {
		t := p.peek()
		if t.k == "eof" {
			break
		}
		if t.k == "op" && depth == 0 && (t.v == "::" || t.v == "," || t.v == ")" || t.v == "=") {
			break
		}
		if t.k == "op" && (t.v == "[" || t.v == "(") {
			depth++
		}
		if t.k == "op" && (t.v == "]" || t.v == ")") {
			depth--
		}
		sb.WriteString(t.v)
		p.p++
	}
	if sb.Len() == 0 {
		return "", fmt.Errorf("expected type")
	}
	return sb.String(), nil
}

func (p *parser) expr(minPrec int) (Expr, error) {
	if p.peek().k == "id" && (p.peek().v == "forall" || p.peek().v == "exists") {
		fa := p.next().v == "forall"
		var vars []Param
		for {
			if p.peek().k != "id" {
				return nil, fmt.Errorf("expected bound var")
			}
			name := p.next().v
			ty, err := p.typeStr()
			if err != nil {
				return nil, err
			}
			vars = append(vars, Param{name, ty})
			if p.isOp(",") {
				p.p++
				continue
			}
			break
		}
		if err := p.expect("::"); err != nil {
			return nil, err
		}
		body, err := p.expr(0)
		if err != nil {
			return nil, err
		}
		return &EQuant{fa, vars, body}, nil
	}
	lhs, err := p.unary()
	if err != nil {
		return nil, err
	}
	for {
		t := p.peek()
		if t.k != "op" {
			break
		}
		if t.v == "?" && minPrec == 0 {
			p.p++
			a, err := p.expr(0)
			if err != nil {
				return nil, err
			}
			if err := p.expect(":"); err != nil {
				return nil, err
			}
			b, err := p.expr(0)
			if err != nil {
				return nil, err
			}
			lhs = &EIte{lhs, a, b}
			continue
		}
		prec, ok := binPrec[t.v]
		if !ok || prec < minPrec {
			break
		}
		p.p++
		var rhs Expr
		if t.v == "==>" || t.v == "<==>" { // right assoc
			rhs, err = p.expr(prec)
		} else {
			rhs, err = p.expr(prec + 1)
		}
		if err != nil {
			return nil, err
		}
		lhs = &EBinary{t.v, lhs, rhs}
	}
	return lhs, nil
}

func (p *parser) unary() (Expr, error) {
	if p.isOp("!") || p.isOp("-") {
		op := p.next().v
		x, err := p.unary()
		if err != nil {
			return nil, err
		}
		return &EUnary{op, x}, nil
	}
	return p.postfix()
}

func (p *parser) postfix() (Expr, error) {
	x, err := p.primary()
	if err != nil {
		return nil, err
	}
	for {
		switch {
		case p.isOp("."):
			p.p++
			if p.peek().k != "id" {
				return nil, fmt.Errorf("expected field name")
			}
			x = &ESel{x, p.next().v}
		case p.isOp("["):
			p.p++
			var lo, hi Expr
			if !p.isOp(":") {
				lo, err = p.expr(0)
				if err != nil {
					return nil, err
				}
			}
			if p.isOp(":") {
				p.p++
				if !p.isOp("]") {
					hi, err = p.expr(0)
					if err != nil {
						return nil, err
					}
				}
				if err := p.expect("]"); err != nil {
					return nil, err
				}
				x = &ESlice{x, lo, hi}
			} else {
				if err := p.expect("]"); err != nil {
					return nil, err
				}
				x = &EIndex{x, lo}
			}
		case p.isOp("("):
			id, ok := x.(*EIdent)
			if !ok {
				return nil, fmt.Errorf("call of non-identifier")
			}
			p.p++
			var args []Expr
			for !p.isOp(")") {
				a, err := p.expr(0)
				if err != nil {
					return nil, err
				}
				args = append(args, a)
				if p.isOp(",") {
					p.p++
				} else if !p.isOp(")") {
					return nil, fmt.Errorf("expected , or ) got %q", p.peek().v)
				}
			}
			p.p++
			x = &ECall{id.Name, args}
		default:
			return x, nil
		}
	}
}

func (p *parser) primary() (Expr, error) {
	t := p.next()
	switch t.k {
	case "int":
		return &EInt{t.v}, nil
	case "str":
		return &EStr{t.v}, nil
	case "id":
		switch t.v {
		case "true":
			return &EBool{true}, nil
		case "false":
			return &EBool{false}, nil
		case "nil":
			return &ENil{}, nil
		}
		return &EIdent{t.v}, nil
	case "op":
		if t.v == "(" {
			e, err := p.expr(0)
			if err != nil {
				return nil, err
			}
			if err := p.expect(")"); err != nil {
				return nil, err
			}
			return e, nil
		}
	}
	return nil, fmt.Errorf("unexpected token %q", t.v)
}

// ---------------------------------------------------------------- file-level parser

var clauseKW = map[string]bool{"requires": true, "ensures": true, "xensures": true, "inv": true, "modifies": true,
	"lock": true, "pure": true, "nopanic": true, "trusted": true, "maypanic": true, "params": true, "results": true,
	"fn": true, "pred": true, "uf": true, "ghost": true, "global": true, "axiom": true, "xmodifies": true, "reads": true,
	"callsonly": true, "delegates": true, "atcall": true, "exceptional": true, "implements": true, "opaque": true, "returns": true, "cut": true, "noglobals": true}

// ParseSpecLines parses the logical lines (already stripped of the //@ prefix).
func ParseSpecLines(pkg, file string, lines []string, lineNos []int) (*SpecFile, error) {
	sf := &SpecFile{Pkg: pkg}
	// join continuation lines
	type ll struct {
		s string
		n int
	}
	var logical []ll
	for i, l := range lines {
		t := strings.TrimSpace(l)
		if t == "" || strings.HasPrefix(t, "#") {
			continue
		}
		first := t
		if j := strings.IndexAny(t, " \t"); j >= 0 {
			first = t[:j]
		}
		if clauseKW[first] || len(logical) == 0 {
			logical = append(logical, ll{t, lineNos[i]})
		} else {
			logical[len(logical)-1].s += " " + t
		}
	}
	var cur *Contract
	for _, l := range logical {
		kw, rest := l.s, ""
		if j := strings.IndexAny(l.s, " \t"); j >= 0 {
			kw, rest = l.s[:j], strings.TrimSpace(l.s[j:])
		}
		errf := func(e error) error { return fmt.Errorf("%s:%d: %v", file, l.n, e) }
		opaque := false
		if kw == "opaque" {
			opaque = true
			rest = strings.TrimSpace(strings.TrimPrefix(rest, "pred"))
			kw = "pred"
		}
		switch kw {
		case "fn":
			cur = &Contract{Key: rest, Pkg: pkg, Flags: map[string]bool{}, File: file, Line: l.n}
			sf.Contracts = append(sf.Contracts, cur)
		case "pred":
			// name(params) [result-type] = expr      (the result type is needed only for recursive definitions)
			op := strings.Index(rest, "(")
			if op < 0 {
				return nil, errf(fmt.Errorf("bad pred"))
			}
			depth, cl := 0, -1
			for i := op; i < len(rest) && cl < 0; i++ {
				switch rest[i] {
				case '(':
					depth++
				case ')':
					depth--
					if depth == 0 {
						cl = i
					}
				}
			}
			if cl < 0 {
				return nil, errf(fmt.Errorf("bad pred"))
			}
			after := rest[cl+1:]
			eq := strings.Index(after, "=")
			if eq < 0 {
				return nil, errf(fmt.Errorf("bad pred"))
			}
			rtype := strings.TrimSpace(after[:eq])
			body := strings.TrimSpace(after[eq+1:])
			name := strings.TrimSpace(rest[:op])
			ps, err := parseParams(rest[op+1 : cl])
			if err != nil {
				return nil, errf(err)
			}
			e, err := ParseExpr(body)
			if err != nil {
				return nil, errf(err)
			}
			sf.Preds = append(sf.Preds, &Pred{Name: name, Params: ps, Body: e, Src: body, Pkg: pkg, Opaque: opaque, Ret: rtype})
		case "uf":
			op := strings.Index(rest, "(")
			cl := strings.LastIndex(rest, ")")
			if op < 0 || cl < 0 {
				return nil, errf(fmt.Errorf("bad uf"))
			}
			u := &UF{Name: strings.TrimSpace(rest[:op]), Ret: strings.TrimSpace(rest[cl+1:]), Pkg: pkg}
			for _, a := range splitTop(rest[op+1:cl], ',') {
				if a = strings.TrimSpace(a); a != "" {
					u.Args = append(u.Args, a)
				}
			}
			sf.UFs = append(sf.UFs, u)
		case "ghost":
			f := strings.SplitN(rest, " ", 2)
			if len(f) != 2 || !strings.Contains(f[0], ".") {
				return nil, errf(fmt.Errorf("bad ghost"))
			}
			f[1] = strings.TrimSpace(f[1])
			dot := strings.LastIndex(f[0], ".")
			sf.Ghosts = append(sf.Ghosts, &GhostField{Type: f[0][:dot], Field: f[0][dot+1:], Sort: f[1], Pkg: pkg})
		case "global", "axiom":
			c, err := parseClause(kw, rest)
			if err != nil {
				return nil, errf(err)
			}
			c.File, c.Line = file, l.n
			if kw == "global" {
				sf.Globals = append(sf.Globals, c)
			} else {
				sf.Axioms = append(sf.Axioms, c)
			}
		default:
			if cur == nil {
				return nil, errf(fmt.Errorf("clause %q outside fn", kw))
			}
			switch kw {
			case "lock":
				cur.Lock = rest
			case "implements":
				cur.Implements = append(cur.Implements, rest)
			case "pure", "nopanic", "trusted", "maypanic", "exceptional", "noglobals":
				cur.Flags[kw] = true
				// "nopanic [C16]": the zero-annotation panic-freedom obligations of this function also count for C16
				if i, j := strings.Index(rest, "["), strings.Index(rest, "]"); kw == "nopanic" && i >= 0 && j > i {
					for _, p := range strings.Split(rest[i+1:j], ",") {
						cur.SafeProps = append(cur.SafeProps, strings.TrimSpace(p))
					}
				}
			case "params":
				cur.Params = strings.Fields(strings.ReplaceAll(rest, ",", " "))
			case "results":
				cur.Results = strings.Fields(strings.ReplaceAll(rest, ",", " "))
			case "returns":
				cur.Returns = strings.Fields(strings.ReplaceAll(rest, ",", " "))
			case "modifies", "xmodifies":
				// modifies key: e1, e2    | modifies key
				c := &Clause{Kind: kw, File: file, Line: l.n, Src: rest}
				key, refs := rest, ""
				if j := strings.Index(rest, ":"); j >= 0 {
					key, refs = strings.TrimSpace(rest[:j]), strings.TrimSpace(rest[j+1:])
				}
				c.Key = key
				for _, r := range splitTop(refs, ',') {
					if r = strings.TrimSpace(r); r != "" {
						e, err := ParseExpr(r)
						if err != nil {
							return nil, errf(err)
						}
						c.Refs = append(c.Refs, e)
					}
				}
				cur.Clauses = append(cur.Clauses, c)
			case "callsonly":
				c := &Clause{Kind: kw, File: file, Line: l.n, Src: rest, Label: "only"}
				if strings.HasPrefix(rest, "[") {
					j := strings.Index(rest, "]")
					for _, p := range strings.Split(rest[1:j], ",") {
						c.Props = append(c.Props, strings.TrimSpace(p))
					}
					rest = strings.TrimSpace(rest[j+1:])
				}
				c.Key = rest
				cur.Clauses = append(cur.Clauses, c)
			case "cut":
				// cut <calleeKey> <ordinal> [props] label: expr   -- proved right after that call returns, then assumed
				f := strings.SplitN(rest, " ", 3)
				if len(f) < 3 {
					return nil, errf(fmt.Errorf("cut needs callee, ordinal and an expression"))
				}
				c, err := parseClause(kw, strings.TrimSpace(f[2]))
				if err != nil {
					return nil, errf(err)
				}
				c.Key = f[0]
				fmt.Sscanf(f[1], "%d", &c.Loop)
				c.File, c.Line = file, l.n
				cur.Clauses = append(cur.Clauses, c)
			case "atcall":
				// atcall <calleeKey> [props] label: expr
				f := strings.SplitN(rest, " ", 2)
				if len(f) < 2 {
					return nil, errf(fmt.Errorf("atcall needs a callee"))
				}
				c, err := parseClause(kw, strings.TrimSpace(f[1]))
				if err != nil {
					return nil, errf(err)
				}
				c.Key = f[0]
				c.File, c.Line = file, l.n
				cur.Clauses = append(cur.Clauses, c)
			case "requires", "ensures", "xensures", "inv":
				c, err := parseClause(kw, rest)
				if err != nil {
					return nil, errf(err)
				}
				c.File, c.Line = file, l.n
				cur.Clauses = append(cur.Clauses, c)
			default:
				return nil, errf(fmt.Errorf("unknown clause %q", kw))
			}
		}
	}
	return sf, nil
}

func parseClause(kind, rest string) (*Clause, error) {
	c := &Clause{Kind: kind}
	if kind == "inv" {
		f := strings.SplitN(rest, " ", 2)
		n, err := strconv.Atoi(f[0])
		if err != nil || len(f) < 2 {
			return nil, fmt.Errorf("inv needs loop ordinal")
		}
		c.Loop = n
		rest = strings.TrimSpace(f[1])
	}
	if strings.HasPrefix(rest, "[") {
		j := strings.Index(rest, "]")
		for _, p := range strings.Split(rest[1:j], ",") {
			c.Props = append(c.Props, strings.TrimSpace(p))
		}
		rest = strings.TrimSpace(rest[j+1:])
	}
	// label: must be identifier chars followed by ':' (not '::')
	if j := strings.Index(rest, ":"); j > 0 && !strings.HasPrefix(rest[j:], "::") {
		lab := rest[:j]
		ok := true
		for _, r := range lab {
			if !(unicode.IsLetter(r) || unicode.IsDigit(r) || r == '_' || r == '-' || r == '.') {
				ok = false
			}
		}
		if ok {
			c.Label = lab
			rest = strings.TrimSpace(rest[j+1:])
		}
	}
	e, err := ParseExpr(rest)
	if err != nil {
		return nil, err
	}
	c.E = e
	c.Src = rest
	return c, nil
}

func parseParams(s string) ([]Param, error) {
	var out []Param
	for _, a := range splitTop(s, ',') {
		a = strings.TrimSpace(a)
		if a == "" {
			continue
		}
		j := strings.IndexAny(a, " \t")
		if j < 0 {
			return nil, fmt.Errorf("param %q needs a type", a)
		}
		out = append(out, Param{a[:j], strings.TrimSpace(a[j:])})
	}
	return out, nil
}

func splitTop(s string, sep byte) []string {
	var out []string
	depth, start := 0, 0
	inStr := false
	for i := 0; i < len(s); i++ {
		c := s[i]
		if inStr {
			if c == '\\' {
				i++
			} else if c == '"' {
				inStr = false
			}
			continue
		}
		switch c {
		case '"':
			inStr = true
		case '(', '[', '{':
			depth++
		case ')', ']', '}':
			depth--
		default:
			if c == sep && depth == 0 {
				out = append(out, s[start:i])
				start = i + 1
			}
		}
	}
	out = append(out, s[start:])
	return out
}
