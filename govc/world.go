package main

import (
	"hash/fnv"
	"fmt"
	"go/ast"
	"go/token"
	"go/types"
	"os"
	"path/filepath"
	"regexp"
	"sort"
	"strings"

	"golang.org/x/tools/go/packages"
	"golang.org/x/tools/go/ssa"
	"golang.org/x/tools/go/ssa/ssautil"
)

const modPath = "github.com/issue9/mux/v9"

type Term struct {
	S    string
	Sort string
}

type World struct {
	repo     string
	fset     *token.FileSet
	prog     *ssa.Program
	pkgs     []*packages.Package
	spkgs    map[string]*ssa.Package // by short name
	tpkgs    map[string]*types.Package
	prelude  []string
	declared map[string]bool

	contracts map[string]*Contract // key pkg.Key
	preds     map[string]*Pred
	ufs       map[string]*UF
	ghosts    map[string]*GhostField // "pkg.Type.field"
	globals   []*Clause
	globalPkg map[*Clause]string
	axioms    []*Clause

	heapSort map[string]string // heap key -> sort
	funcs    map[string]*ssa.Function
	funcKeys map[*ssa.Function]string
	modsets  map[*ssa.Function]map[string]bool
	typeIDs  map[string]int
	strLits  map[string]bool

	protectedFields map[string]bool
	globalTypes     map[string]types.Type
	immutableFields map[string]bool // protected fields that are only written during construction
	allFuncs        map[string]*ssa.Function
	opqSig          map[string]string
	opaques         map[string]*opaqueDef
	mapKeyTypes     map[string]types.Type
	keyTypes        map[string]types.Type
}

func shortPkg(path string) string {
	if path == modPath {
		return "mux"
	}
	if i := strings.LastIndex(path, "/"); i >= 0 {
		return path[i+1:]
	}
	return path
}

func LoadWorld(repo string, specDirs []string) (*World, error) {
	w := &World{repo: repo, declared: map[string]bool{}, contracts: map[string]*Contract{}, preds: map[string]*Pred{},
		ufs: map[string]*UF{}, ghosts: map[string]*GhostField{}, heapSort: map[string]string{}, funcs: map[string]*ssa.Function{},
		funcKeys: map[*ssa.Function]string{}, modsets: map[*ssa.Function]map[string]bool{}, spkgs: map[string]*ssa.Package{},
		tpkgs: map[string]*types.Package{}, typeIDs: map[string]int{}, strLits: map[string]bool{}, globalPkg: map[*Clause]string{}, opqSig: map[string]string{}, opaques: map[string]*opaqueDef{}}
	cfg := &packages.Config{Mode: packages.LoadAllSyntax, Dir: repo, BuildFlags: []string{"-tags=verif"}, Tests: false}
	pkgs, err := packages.Load(cfg, ".", "./internal/syntax", "./internal/tree", "./internal/trace", "./types", "./header")
	if err != nil {
		return nil, err
	}
	for _, p := range pkgs {
		for _, e := range p.Errors {
			return nil, fmt.Errorf("load error: %v", e)
		}
	}
	w.pkgs = pkgs
	w.fset = pkgs[0].Fset
	prog, spkgs := ssautil.AllPackages(pkgs, ssa.GlobalDebug)
	prog.Build()
	w.prog = prog
	for i, sp := range spkgs {
		if sp == nil {
			continue
		}
		w.spkgs[shortPkg(sp.Pkg.Path())] = sp
		_ = i
	}
	// module packages take precedence over dependencies with the same last path element (regexp/syntax)
	for _, p := range pkgs {
		if p.Types != nil {
			w.tpkgs[shortPkg(p.Types.Path())] = p.Types
		}
	}
	packages.Visit(pkgs, nil, func(p *packages.Package) {
		if p.Types != nil {
			n := shortPkg(p.Types.Path())
			if _, ok := w.tpkgs[n]; !ok {
				w.tpkgs[n] = p.Types
			}
		}
	})
	// collect functions of module packages
	for _, sp := range w.spkgs {
		if !strings.HasPrefix(sp.Pkg.Path(), modPath) {
			continue
		}
		for _, m := range sp.Members {
			switch m := m.(type) {
			case *ssa.Function:
				w.addFunc(m)
			case *ssa.Type:
				for _, t := range []types.Type{m.Type(), types.NewPointer(m.Type())} {
					ms := prog.MethodSets.MethodSet(t)
					for i := 0; i < ms.Len(); i++ {
						f := prog.MethodValue(ms.At(i))
						if f != nil && f.Synthetic == "" {
							w.addFunc(f)
						}
					}
				}
			}
		}
	}
	// generic methods: MethodValue returns nil for generic types; find via types
	for _, p := range pkgs {
		if !strings.HasPrefix(p.PkgPath, modPath) {
			continue
		}
		for _, obj := range p.TypesInfo.Defs {
			if fn, ok := obj.(*types.Func); ok {
				if f := prog.FuncValue(fn); f != nil && f.Synthetic == "" {
					w.addFunc(f)
				}
			}
		}
	}
	// contracts from the repo (guarded files) and from spec dirs
	for _, p := range pkgs {
		if !strings.HasPrefix(p.PkgPath, modPath) {
			continue
		}
		for i, f := range p.Syntax {
			name := p.CompiledGoFiles[i]
			if filepath.Base(name) != "contracts_verif.go" {
				continue
			}
			var lines []string
			var nos []int
			for _, cg := range f.Comments {
				for _, c := range cg.List {
					if strings.HasPrefix(c.Text, "//@") {
						lines = append(lines, strings.TrimPrefix(c.Text, "//@"))
						nos = append(nos, w.fset.Position(c.Pos()).Line)
					}
				}
			}
			sf, err := ParseSpecLines(shortPkg(p.PkgPath), name, lines, nos)
			if err != nil {
				return nil, err
			}
			if err := w.addSpec(sf); err != nil {
				return nil, err
			}
		}
	}
	for _, d := range specDirs {
		files, _ := filepath.Glob(filepath.Join(d, "*.spec"))
		sort.Strings(files)
		for _, fn := range files {
			b, err := os.ReadFile(fn)
			if err != nil {
				return nil, err
			}
			var lines []string
			var nos []int
			for i, l := range strings.Split(string(b), "\n") {
				lines = append(lines, l)
				nos = append(nos, i+1)
			}
			sf, err := ParseSpecLines("extern", fn, lines, nos)
			if err != nil {
				return nil, err
			}
			if err := w.addSpec(sf); err != nil {
				return nil, err
			}
		}
	}
	w.protectedFields = map[string]bool{}
	for _, f := range []string{"parent", "segment", "pattern", "methodIndex", "handlers", "indexes", "children"} {
		w.protectedFields["F:tree.node."+f] = true
	}
	w.protectedFields["F:tree.Tree.methods"] = true
	w.protectedFields["F:tree.Tree.trace"] = true    // rewritten by ApplyMiddleware (Use)
	w.protectedFields["F:tree.Tree.notFound"] = true // rewritten by ApplyMiddleware (Use)
	w.immutableFields = map[string]bool{"F:tree.node.pattern": true}
	return w, nil
}

func (w *World) addSpec(sf *SpecFile) error {
	for _, c := range sf.Contracts {
		k := c.Key
		if sf.Pkg != "extern" && !strings.HasPrefix(c.Key, sf.Pkg+".") {
			k = sf.Pkg + "." + c.Key
		}
		if _, dup := w.contracts[k]; dup {
			return fmt.Errorf("%s:%d: duplicate contract for %s", c.File, c.Line, k)
		}
		w.contracts[k] = c
	}
	for _, p := range sf.Preds {
		if _, dup := w.preds[p.Name]; dup {
			return fmt.Errorf("duplicate pred %s", p.Name)
		}
		w.preds[p.Name] = p
	}
	for _, u := range sf.UFs {
		w.ufs[u.Name] = u
	}
	for _, g := range sf.Ghosts {
		t := g.Type
		if !strings.Contains(t, ".") {
			t = sf.Pkg + "." + t
		}
		w.ghosts[t+"."+g.Field] = g
		srt := g.Sort
		if strings.HasPrefix(srt, "`") {
			srt = strings.Trim(srt, "`")
		} else {
			ft, err := w.resolveType(g.Pkg, g.Sort)
			if err != nil {
				return err
			}
			srt = w.sortOf(ft)
		}
		w.heapSort["F:"+t+"."+g.Field] = fmt.Sprintf("(Array Int %s)", srt)
	}
	for _, g := range sf.Globals {
		w.globals = append(w.globals, g)
		w.globalPkg[g] = sf.Pkg
	}
	for _, a := range sf.Axioms {
		w.axioms = append(w.axioms, a)
		w.globalPkg[a] = sf.Pkg
	}
	return nil
}

func recvTypeName(t types.Type) string {
	if p, ok := t.(*types.Pointer); ok {
		t = p.Elem()
	}
	if n, ok := t.(*types.Named); ok {
		return n.Obj().Name()
	}
	if a, ok := t.(*types.Alias); ok {
		return a.Obj().Name()
	}
	return t.String()
}

// funcKey gives the contract key of a function: pkg.Recv.Name / pkg.Name / pkg.Parent$n
func (w *World) funcKey(f *ssa.Function) string {
	if k, ok := w.funcKeys[f]; ok {
		return k
	}
	if f.Origin() != nil {
		f = f.Origin()
	}
	var k string
	if f.Parent() != nil {
		pk := w.funcKey(f.Parent())
		name := f.Name() // Parent$1
		if i := strings.LastIndex(name, "$"); i >= 0 {
			k = pk + name[i:]
		} else {
			k = pk + "$" + name
		}
	} else {
		pkg := ""
		if f.Pkg != nil {
			pkg = shortPkg(f.Pkg.Pkg.Path())
		} else if f.Object() != nil && f.Object().Pkg() != nil {
			pkg = shortPkg(f.Object().Pkg().Path())
		}
		if f.Signature.Recv() != nil {
			k = pkg + "." + recvTypeName(f.Signature.Recv().Type()) + "." + f.Name()
		} else {
			k = pkg + "." + f.Name()
		}
	}
	w.funcKeys[f] = k
	return k
}

func (w *World) addFunc(f *ssa.Function) {
	if f == nil || f.Blocks == nil {
		return
	}
	if f.Origin() != nil {
		f = f.Origin()
	}
	k := w.funcKey(f)
	if _, ok := w.funcs[k]; ok {
		return
	}
	w.funcs[k] = f
	for _, a := range f.AnonFuncs {
		w.addFunc(a)
	}
}

// ---------------------------------------------------------------- sorts

func (w *World) decl(key, text string) {
	if !w.declared[key] {
		w.declared[key] = true
		w.prelude = append(w.prelude, text)
	}
}

func q(s string) string { return "|" + s + "|" }

// typeName gives a stable printable name for a Go type (type params printed by name)
func typeName(t types.Type) string {
	s := types.TypeString(t, func(p *types.Package) string { return shortPkg(p.Path()) })
	// an uninstantiated generic type prints its type parameter declarations ("node[T any]"): same name as inside generic bodies
	return typeParamDecl.ReplaceAllString(s, "$1")
}

var typeParamDecl = regexp.MustCompile(`(\b[A-Z]\w*) (any|comparable)\b`)

func origin(t types.Type) types.Type {
	switch t := t.(type) {
	case *types.Named:
		return t.Origin()
	case *types.Alias:
		return origin(types.Unalias(t))
	}
	return t
}

func namedName(t types.Type) string {
	t = types.Unalias(t)
	if n, ok := t.(*types.Named); ok {
		o := n.Origin().Obj()
		if o.Pkg() != nil {
			return shortPkg(o.Pkg().Path()) + "." + o.Name()
		}
		return o.Name()
	}
	return typeName(t)
}

func (w *World) sortOf(t types.Type) string {
	t = types.Unalias(t)
	switch u := t.Underlying().(type) {
	case *types.Basic:
		switch {
		case u.Info()&types.IsBoolean != 0:
			return "Bool"
		case u.Info()&types.IsString != 0:
			return "String"
		case u.Kind() == types.UntypedNil:
			return "Int"
		default:
			return "Int"
		}
	case *types.Slice:
		return w.sliceSort(w.sortOf(u.Elem()))
	case *types.Struct:
		if _, ok := t.(*types.Named); ok {
			return w.structSort(t)
		}
		if u.NumFields() == 0 {
			return "Int"
		}
		return w.structSort(t)
	case *types.Tuple:
		return "TUPLE"
	}
	return "Int"
}

func sortTag(s string) string {
	r := strings.NewReplacer("(", "", ")", "", " ", "_", "|", "")
	return r.Replace(s)
}

func (w *World) sliceSort(elem string) string {
	name := "Slice_" + sortTag(elem)
	w.decl("sort:"+name, fmt.Sprintf("(declare-datatypes ((%s 0)) (((mk_%s (arr_%s Int) (off_%s Int) (len_%s Int)))))", name, name, name, name, name))
	return name
}

func (w *World) structSort(t types.Type) string {
	name := q("S:" + namedName(t))
	if w.declared["sort:"+name] {
		return name
	}
	w.declared["sort:"+name] = true
	st := t.Underlying().(*types.Struct)
	var fs []string
	for i := 0; i < st.NumFields(); i++ {
		f := st.Field(i)
		fs = append(fs, fmt.Sprintf("(%s %s)", w.structAcc(t, i), w.sortOf(f.Type())))
	}
	if len(fs) == 0 {
		fs = append(fs, fmt.Sprintf("(%s Int)", q("S:"+namedName(t)+".#dummy")))
	}
	w.prelude = append(w.prelude, fmt.Sprintf("(declare-datatypes ((%s 0)) (((%s %s))))", name, q("mk:"+namedName(t)), strings.Join(fs, " ")))
	return name
}

func (w *World) structAcc(t types.Type, i int) string {
	st := t.Underlying().(*types.Struct)
	return q("S:" + namedName(t) + "." + st.Field(i).Name())
}

func (w *World) zero(t types.Type) Term {
	s := w.sortOf(t)
	return w.zeroOfSort(s, t)
}

func (w *World) zeroOfSort(s string, t types.Type) Term {
	switch {
	case s == "Int":
		return Term{"0", s}
	case s == "Bool":
		return Term{"false", s}
	case s == "String":
		return Term{"\"\"", s}
	case strings.HasPrefix(s, "Slice_"):
		return Term{fmt.Sprintf("(mk_%s 0 0 0)", s), s}
	case strings.HasPrefix(s, "|S:"):
		st := types.Unalias(t).Underlying().(*types.Struct)
		var fs []string
		for i := 0; i < st.NumFields(); i++ {
			fs = append(fs, w.zero(st.Field(i).Type()).S)
		}
		if len(fs) == 0 {
			fs = []string{"0"}
		}
		return Term{fmt.Sprintf("(%s %s)", q("mk:"+namedName(t)), strings.Join(fs, " ")), s}
	}
	panic("zero of sort " + s)
}

// heap keys
func (w *World) fieldKey(structT types.Type, idx int) (string, string) {
	st := types.Unalias(structT).Underlying().(*types.Struct)
	key := "F:" + namedName(structT) + "." + st.Field(idx).Name()
	srt := w.sortOf(st.Field(idx).Type())
	w.heapSort[key] = fmt.Sprintf("(Array Int %s)", srt)
	if w.keyTypes == nil {
		w.keyTypes = map[string]types.Type{}
	}
	w.keyTypes[key] = st.Field(idx).Type()
	return key, srt
}

func (w *World) mapKeys(mt *types.Map) (dom, val, card string, ks, vs string) {
	ks, vs = w.sortOf(mt.Key()), w.sortOf(mt.Elem())
	n := typeName(mt)
	dom, val, card = "Mdom:"+n, "Mval:"+n, "Mcard:"+n
	if w.mapKeyTypes == nil {
		w.mapKeyTypes = map[string]types.Type{}
	}
	w.mapKeyTypes[n] = mt.Key()
	w.heapSort[dom] = fmt.Sprintf("(Array Int (Array %s Bool))", ks)
	w.heapSort[val] = fmt.Sprintf("(Array Int (Array %s %s))", ks, vs)
	w.heapSort[card] = "(Array Int Int)"
	return
}

func (w *World) sliceKey(elem types.Type) (string, string) {
	es := w.sortOf(elem)
	key := "S:" + typeName(elem)
	w.heapSort[key] = fmt.Sprintf("(Array Int (Array Int %s))", es)
	return key, es
}

func (w *World) cellKey(elem types.Type) (string, string) {
	es := w.sortOf(elem)
	key := "C:" + typeName(elem)
	w.heapSort[key] = fmt.Sprintf("(Array Int %s)", es)
	return key, es
}

func (w *World) globalKey(g *ssa.Global) (string, string) {
	elem := g.Type().(*types.Pointer).Elem()
	es := w.sortOf(elem)
	key := "G:" + shortPkg(g.Pkg.Pkg.Path()) + "." + g.Name()
	w.heapSort[key] = es
	if w.globalTypes == nil {
		w.globalTypes = map[string]types.Type{}
	}
	w.globalTypes[key] = elem
	return key, es
}

func (w *World) typeID(t types.Type) int {
	n := typeName(t)
	if id, ok := w.typeIDs[n]; ok {
		return id
	}
	// a stable id (independent of discovery order): hash of the type name, collisions resolved deterministically
	h := fnv.New32a()
	h.Write([]byte(n))
	id := int(h.Sum32()%900000) + 1
	for used := true; used; {
		used = false
		for _, v := range w.typeIDs {
			if v == id {
				used = true
				id++
				break
			}
		}
	}
	w.typeIDs[n] = id
	return id
}

// box/unbox for interface values
func (w *World) box(t types.Type, v Term) Term {
	n := typeName(t)
	id := w.typeID(t)
	bx, ub := q("box:"+n), q("unbox:"+n)
	w.decl("box:"+n, fmt.Sprintf("(declare-fun %s (%s) Int)\n(declare-fun %s (Int) %s)\n(assert (forall ((x %s)) (! (and (= (%s (%s x)) x) (not (= (%s x) 0)) (= (typeof (%s x)) %d)) :pattern ((%s x)))))",
		bx, v.Sort, ub, v.Sort, v.Sort, ub, bx, bx, bx, id, bx))
	return Term{fmt.Sprintf("(%s %s)", bx, v.S), "Int"}
}

func (w *World) unbox(t types.Type, v Term) Term {
	n := typeName(t)
	s := w.sortOf(t)
	w.box(t, Term{"", s}) // ensure decl
	return Term{fmt.Sprintf("(%s %s)", q("unbox:"+n), v.S), s}
}

func smtStr(s string) string {
	var sb strings.Builder
	sb.WriteByte('"')
	for i := 0; i < len(s); i++ {
		c := s[i]
		if c >= 0x20 && c < 0x7f && c != '"' && c != '\\' {
			sb.WriteByte(c)
		} else {
			fmt.Fprintf(&sb, "\\u{%x}", c)
		}
	}
	sb.WriteByte('"')
	return sb.String()
}

func (w *World) basePrelude() []string {
	return []string{
		"(declare-fun typeof (Int) Int)",
		"(declare-fun ibitand (Int Int) Int)",
		"(declare-fun ibitor (Int Int) Int)",
		"(declare-fun ishl (Int Int) Int)",
		"(define-fun streq ((a String) (b String)) Bool (= a b))",
		// x & 2^k for the nine method bits, by arithmetic (no bit-vectors)
		"(assert (forall ((x Int)) (! (= (ibitand x 1) (ite (= (mod x 2) 1) 1 0)) :pattern ((ibitand x 1)))))",
		"(assert (forall ((x Int)) (! (= (ibitand x 2) (ite (= (mod (div x 2) 2) 1) 2 0)) :pattern ((ibitand x 2)))))",
		"(assert (forall ((x Int)) (! (= (ibitand x 4) (ite (= (mod (div x 4) 2) 1) 4 0)) :pattern ((ibitand x 4)))))",
		"(assert (forall ((x Int)) (! (= (ibitand x 8) (ite (= (mod (div x 8) 2) 1) 8 0)) :pattern ((ibitand x 8)))))",
		"(assert (forall ((x Int)) (! (= (ibitand x 16) (ite (= (mod (div x 16) 2) 1) 16 0)) :pattern ((ibitand x 16)))))",
		"(assert (forall ((x Int)) (! (= (ibitand x 32) (ite (= (mod (div x 32) 2) 1) 32 0)) :pattern ((ibitand x 32)))))",
		"(assert (forall ((x Int)) (! (= (ibitand x 64) (ite (= (mod (div x 64) 2) 1) 64 0)) :pattern ((ibitand x 64)))))",
		"(assert (forall ((x Int)) (! (= (ibitand x 128) (ite (= (mod (div x 128) 2) 1) 128 0)) :pattern ((ibitand x 128)))))",
		"(assert (forall ((x Int)) (! (= (ibitand x 256) (ite (= (mod (div x 256) 2) 1) 256 0)) :pattern ((ibitand x 256)))))",
		"(assert (= (ishl 1 0) 1))", "(assert (= (ishl 1 1) 2))", "(assert (= (ishl 1 2) 4))", "(assert (= (ishl 1 3) 8))", "(assert (= (ishl 1 4) 16))",
		"(assert (= (ishl 1 5) 32))", "(assert (= (ishl 1 6) 64))", "(assert (= (ishl 1 7) 128))", "(assert (= (ishl 1 8) 256))", "(assert (= (ishl 1 9) 512))",
	}
}

// resolveType resolves a type string written in a spec, in the scope of package pkg.
func (w *World) resolveType(pkg string, s string) (types.Type, error) {
	s = strings.TrimSpace(s)
	switch {
	case strings.HasPrefix(s, "*"):
		t, err := w.resolveType(pkg, s[1:])
		if err != nil {
			return nil, err
		}
		return types.NewPointer(t), nil
	case strings.HasPrefix(s, "[]"):
		t, err := w.resolveType(pkg, s[2:])
		if err != nil {
			return nil, err
		}
		return types.NewSlice(t), nil
	case strings.HasPrefix(s, "map["):
		depth := 0
		for i := 3; i < len(s); i++ {
			if s[i] == '[' {
				depth++
			} else if s[i] == ']' {
				depth--
				if depth == 0 {
					k, err := w.resolveType(pkg, s[4:i])
					if err != nil {
						return nil, err
					}
					v, err := w.resolveType(pkg, s[i+1:])
					if err != nil {
						return nil, err
					}
					return types.NewMap(k, v), nil
				}
			}
		}
	}
	switch s {
	case "int":
		return types.Typ[types.Int], nil
	case "string":
		return types.Typ[types.String], nil
	case "bool":
		return types.Typ[types.Bool], nil
	case "byte":
		return types.Typ[types.Uint8], nil
	case "int16":
		return types.Typ[types.Int16], nil
	case "any":
		return types.NewInterfaceType(nil, nil), nil
	case "error":
		return types.Universe.Lookup("error").Type(), nil
	case "T":
		return types.NewInterfaceType(nil, nil), nil
	}
	if i := strings.Index(s, "."); i >= 0 {
		pkg, s = s[:i], s[i+1:]
	}
	tp := w.tpkgs[pkg]
	if tp == nil {
		return nil, fmt.Errorf("unknown package %q for type %q", pkg, s)
	}
	if j := strings.Index(s, "["); j >= 0 {
		s = s[:j]
	}
	obj := tp.Scope().Lookup(s)
	if obj == nil {
		return nil, fmt.Errorf("unknown type %s.%s", pkg, s)
	}
	tn, ok := obj.(*types.TypeName)
	if !ok {
		return nil, fmt.Errorf("%s.%s is not a type", pkg, s)
	}
	return tn.Type(), nil
}

func posOf(w *World, p token.Pos) string {
	if !p.IsValid() {
		return ""
	}
	ps := w.fset.Position(p)
	rel, err := filepath.Rel(w.repo, ps.Filename)
	if err != nil {
		rel = ps.Filename
	}
	return fmt.Sprintf("%s:%d", rel, ps.Line)
}

var _ = ast.Inspect

// findFunc finds any function of the program (module or dependency) by contract key.
func (w *World) findFunc(key string) *ssa.Function {
	if f, ok := w.funcs[key]; ok {
		return f
	}
	if w.allFuncs == nil {
		w.allFuncs = map[string]*ssa.Function{}
		for f := range ssautil.AllFunctions(w.prog) {
			if f.Synthetic != "" && f.Origin() == nil {
				continue
			}
			w.allFuncs[w.funcKey(f)] = f
		}
	}
	return w.allFuncs[key]
}

// elemTerm: element i of slice s in slice-heap h, through an uninterpreted accessor with a definitional axiom,
// so that quantified facts about slice elements have a trigger free of arithmetic.
func (w *World) elemTerm(ss, es, h, s, i string) string {
	fn := "elem_" + ss
	w.decl("fn:"+fn, fmt.Sprintf("(declare-fun %s ((Array Int (Array Int %s)) %s Int) %s)\n(assert (forall ((h (Array Int (Array Int %s))) (s %s) (i Int)) (! (= (%s h s i) (select (select h (arr_%s s)) (+ (off_%s s) i))) :pattern ((%s h s i)))))",
		fn, es, ss, es, es, ss, fn, ss, ss, fn))
	return fmt.Sprintf("(%s %s %s %s)", fn, h, s, i)
}

func (w *World) structID(t types.Type) int {
	return w.typeID(types.NewPointer(origin(types.Unalias(t)))) + 1000
}

var srcCache = map[string][]string{}

// srcLine returns the trimmed text of the source line of pos ("" if unknown)
func (w *World) srcLine(p token.Pos) string {
	if !p.IsValid() {
		return ""
	}
	ps := w.fset.Position(p)
	lines, ok := srcCache[ps.Filename]
	if !ok {
		b, err := os.ReadFile(ps.Filename)
		if err == nil {
			lines = strings.Split(string(b), "\n")
		}
		srcCache[ps.Filename] = lines
	}
	if ps.Line-1 < len(lines) && ps.Line >= 1 {
		t := strings.TrimSpace(lines[ps.Line-1])
		if i := strings.Index(t, "//"); i > 0 {
			t = strings.TrimSpace(t[:i])
		}
		if len(t) > 70 {
			t = t[:70]
		}
		return t
	}
	return ""
}
