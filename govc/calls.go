package main

import (
	"fmt"
	"go/token"
	"go/types"
	"sort"
	"strings"

	"golang.org/x/tools/go/ssa"
)

type calleeInfo struct {
	key      string
	short    string
	con      *Contract
	pnames   []string
	ptypes   []types.Type
	rtypes   []types.Type
	rnames   []string
	mods     map[string]int
	isModule bool
	pkg      string
	dynamic  bool
}

func sigInfo(sig *types.Signature, withRecv bool) (pn []string, pt []types.Type, rn []string, rt []types.Type) {
	if withRecv && sig.Recv() != nil {
		n := sig.Recv().Name()
		if n == "" || n == "_" {
			n = "recv"
		}
		pn = append(pn, n)
		pt = append(pt, sig.Recv().Type())
	}
	for i := 0; i < sig.Params().Len(); i++ {
		p := sig.Params().At(i)
		n := p.Name()
		if n == "" || n == "_" {
			n = fmt.Sprintf("a%d", i)
		}
		pn = append(pn, n)
		pt = append(pt, p.Type())
	}
	for i := 0; i < sig.Results().Len(); i++ {
		r := sig.Results().At(i)
		rn = append(rn, r.Name())
		rt = append(rt, r.Type())
	}
	return
}

func (w *World) calleeOf(f *ssa.Function) *calleeInfo {
	inst := f
	if f.Origin() != nil {
		f = f.Origin()
	}
	ci := &calleeInfo{key: w.funcKey(f)}
	ci.con = w.contracts[ci.key]
	ci.pkg = strings.SplitN(ci.key, ".", 2)[0]
	ci.pnames, ci.ptypes, ci.rnames, ci.rtypes = sigInfo(inst.Signature, true)
	if f.Blocks != nil && f.Pkg != nil && strings.HasPrefix(f.Pkg.Pkg.Path(), modPath) {
		ci.isModule = true
		ci.pnames = nil
		ci.ptypes = nil
		for _, p := range f.Params {
			ci.pnames = append(ci.pnames, p.Name())
			ci.ptypes = append(ci.ptypes, p.Type())
		}
		ci.mods = w.modset(f)
	}
	if ci.con != nil && len(ci.con.Params) > 0 {
		ci.pnames = ci.con.Params
	}
	if ci.con != nil && len(ci.con.Results) > 0 {
		ci.rnames = ci.con.Results
	}
	ci.short = ci.key
	return ci
}

// ---------------------------------------------------------------- modset inference

func (w *World) storeKeys(addr ssa.Value) map[string]int {
	out := map[string]int{}
	switch a := addr.(type) {
	case *ssa.FieldAddr:
		stT := a.X.Type().Underlying().(*types.Pointer).Elem()
		key, _ := w.fieldKey(stT, a.Field)
		lvl := 2
		if _, ok := a.X.(*ssa.Alloc); ok {
			lvl = 1
		}
		out[key] = lvl
	case *ssa.IndexAddr:
		if sl, ok := types.Unalias(a.X.Type()).Underlying().(*types.Slice); ok {
			key, _ := w.sliceKey(sl.Elem())
			out[key] = 2
		} else if pa, ok := types.Unalias(a.X.Type()).Underlying().(*types.Pointer); ok {
			if at, ok := types.Unalias(pa.Elem()).Underlying().(*types.Array); ok {
				key, _ := w.sliceKey(at.Elem())
				out[key] = 2
				if _, isAlloc := a.X.(*ssa.Alloc); isAlloc {
					out[key] = 1
				}
			}
		}
	case *ssa.Global:
		key, _ := w.globalKey(a)
		out[key] = 2
	case *ssa.Alloc:
		elem := a.Type().(*types.Pointer).Elem()
		if stt, ok := types.Unalias(elem).Underlying().(*types.Struct); ok {
			for i := 0; i < stt.NumFields(); i++ {
				key, _ := w.fieldKey(elem, i)
				out[key] = 1
			}
		} else if at, ok := types.Unalias(elem).Underlying().(*types.Array); ok {
			key, _ := w.sliceKey(at.Elem())
			out[key] = 1
		} else {
			key, _ := w.cellKey(elem)
			out[key] = 1
		}
	default:
		if pt, ok := types.Unalias(addr.Type()).Underlying().(*types.Pointer); ok {
			elem := pt.Elem()
			if stt, ok := types.Unalias(elem).Underlying().(*types.Struct); ok {
				for i := 0; i < stt.NumFields(); i++ {
					key, _ := w.fieldKey(elem, i)
					out[key] = 2
				}
			} else {
				key, _ := w.cellKey(elem)
				out[key] = 2
			}
		}
	}
	return out
}

// instrMods: heap keys an instruction may modify (level 1: only freshly allocated objects, 2: any)
func (w *World) instrMods(in ssa.Instruction) map[string]int {
	out := map[string]int{}
	add := func(m map[string]int) {
		for k, v := range m {
			if out[k] < v {
				out[k] = v
			}
		}
	}
	switch in := in.(type) {
	case *ssa.Store:
		add(w.storeKeys(in.Addr))
	case *ssa.Alloc:
		out["alloc"] = 2
		add(w.storeKeys(in))
		if _, ok := types.Unalias(in.Type().(*types.Pointer).Elem()).(*types.Named); ok {
			if _, isStruct := in.Type().(*types.Pointer).Elem().Underlying().(*types.Struct); isStruct {
				w.heapSort["typ"] = "(Array Int Int)"
				out["typ"] = 1
				out[fmt.Sprintf("typ#%d", w.structID(in.Type().(*types.Pointer).Elem()))] = 1
			}
		}
	case *ssa.MakeMap:
		mt := types.Unalias(in.Type()).Underlying().(*types.Map)
		d, _, c, _, _ := w.mapKeys(mt)
		out["alloc"] = 2
		out[d], out[c] = 1, 1
	case *ssa.MakeSlice:
		sl := types.Unalias(in.Type()).Underlying().(*types.Slice)
		k, _ := w.sliceKey(sl.Elem())
		out["alloc"] = 2
		out[k] = 1
	case *ssa.MakeClosure:
	case *ssa.MapUpdate:
		mt := types.Unalias(in.Map.Type()).Underlying().(*types.Map)
		d, v, c, _, _ := w.mapKeys(mt)
		lvl := 2
		if _, ok := in.Map.(*ssa.MakeMap); ok {
			lvl = 1
		}
		out[d], out[v], out[c] = lvl, lvl, lvl
	case *ssa.Call:
		add(w.callMods(in.Common()))
	case *ssa.Defer:
		add(w.callMods(in.Common()))
	case *ssa.Go:
		add(w.callMods(in.Common()))
	}
	return out
}

func (w *World) callMods(c *ssa.CallCommon) map[string]int {
	out := map[string]int{}
	if b, ok := c.Value.(*ssa.Builtin); ok {
		switch b.Name() {
		case "delete", "clear":
			if mt, ok := types.Unalias(c.Args[0].Type()).Underlying().(*types.Map); ok {
				d, v, cd, _, _ := w.mapKeys(mt)
				out[d], out[v], out[cd] = 2, 2, 2
			} else if sl, ok := types.Unalias(c.Args[0].Type()).Underlying().(*types.Slice); ok {
				k, _ := w.sliceKey(sl.Elem())
				out[k] = 2
			}
		case "append":
			if sl, ok := types.Unalias(c.Args[0].Type()).Underlying().(*types.Slice); ok {
				k, _ := w.sliceKey(sl.Elem())
				out[k] = 1
				out["alloc"] = 2
			}
		case "copy":
			if sl, ok := types.Unalias(c.Args[0].Type()).Underlying().(*types.Slice); ok {
				k, _ := w.sliceKey(sl.Elem())
				out[k] = 2
			}
		case "recover":
			out["panicking"] = 2
		}
		return out
	}
	if f := c.StaticCallee(); f != nil {
		if f.Origin() != nil {
			f = f.Origin()
		}
		key := w.funcKey(f)
		if f.Blocks != nil && f.Pkg != nil && strings.HasPrefix(f.Pkg.Pkg.Path(), modPath) {
			for k, v := range w.modsetCur(f) {
				out[k] = v
			}
		}
		if con := w.contracts[key]; con != nil {
			for _, cl := range con.Clauses {
				if cl.Kind == "modifies" {
					if strings.HasPrefix(cl.Key, "@") {
						// slice parameter by name: find its position among the contract's params
						for i, pn := range con.Params {
							if pn == cl.Key[1:] && i < len(c.Args) {
								if sl, ok := types.Unalias(c.Args[i].Type()).Underlying().(*types.Slice); ok {
									k, _ := w.sliceKey(sl.Elem())
									out[k] = 2
								}
							}
						}
						continue
					}
					for _, k := range w.expandKey(cl.Key) {
						if out[k] < 2 {
							out[k] = 2
						}
					}
				}
			}
		}
		return out
	}
	// dynamic / invoke: contract keyed by interface method or func type
	if key := w.dynKey(c); key != "" {
		if con := w.contracts[key]; con != nil {
			for _, cl := range con.Clauses {
				if cl.Kind == "modifies" {
					for _, k := range w.expandKey(cl.Key) {
						out[k] = 2
					}
				}
			}
		}
	}
	return out
}

// expandKey turns a key written in a spec into heap keys: "node.children" -> F:tree.node.children,
// "map[string]string" -> the three map arrays, "[]string" -> slice heap, "alloc".
func (w *World) expandKey(k string) []string {
	k = strings.TrimSpace(k)
	if k == "alloc" || k == "typ" {
		return []string{k}
	}
	if _, ok := w.heapSort[k]; ok {
		return []string{k}
	}
	if strings.HasPrefix(k, "map[") {
		return []string{"Mdom:" + k, "Mval:" + k, "Mcard:" + k}
	}
	if strings.HasPrefix(k, "[]") {
		return []string{"S:" + k[2:]}
	}
	if _, ok := w.heapSort["F:"+k]; ok {
		return []string{"F:" + k}
	}
	if _, ok := w.heapSort["G:"+k]; ok {
		return []string{"G:" + k}
	}
	return []string{"F:" + k}
}

var modsetWork map[*ssa.Function]map[string]int

func (w *World) modsetCur(f *ssa.Function) map[string]int {
	if modsetWork == nil {
		w.computeModsets()
	}
	return modsetWork[f]
}

func (w *World) modset(f *ssa.Function) map[string]int { return w.modsetCur(f) }

func (w *World) computeModsets() {
	modsetWork = map[*ssa.Function]map[string]int{}
	var fns []*ssa.Function
	var names []string
	for k := range w.funcs {
		names = append(names, k)
	}
	sort.Strings(names) // deterministic discovery order of heap keys, type ids and declarations
	for _, k := range names {
		f := w.funcs[k]
		fns = append(fns, f)
		modsetWork[f] = map[string]int{}
	}
	for changed := true; changed; {
		changed = false
		for _, f := range fns {
			m := modsetWork[f]
			for _, b := range f.Blocks {
				for _, in := range b.Instrs {
					for k, v := range w.instrMods(in) {
						if strings.HasPrefix(k, "IT:") {
							continue
						}
						if m[k] < v {
							m[k] = v
							changed = true
						}
					}
				}
			}
		}
	}
}

func (w *World) dynKey(c *ssa.CallCommon) string {
	if c.IsInvoke() {
		t := types.Unalias(c.Value.Type())
		name := namedName(t)
		if _, ok := t.(*types.Named); !ok {
			if _, isTP := t.(*types.TypeParam); isTP {
				name = "T"
			} else {
				name = "iface"
			}
		}
		return name + "." + c.Method.Name()
	}
	t := c.Value.Type()
	if n, ok := types.Unalias(t).(*types.Named); ok {
		return namedName(n)
	}
	if a, ok := t.(*types.Alias); ok {
		return shortPkg(a.Obj().Pkg().Path()) + "." + a.Obj().Name()
	}
	// field-loaded func values: key by the field
	if u, ok := c.Value.(*ssa.UnOp); ok && u.Op == token.MUL {
		if fa, ok := u.X.(*ssa.FieldAddr); ok {
			stT := fa.X.Type().Underlying().(*types.Pointer).Elem()
			return namedName(stT) + "." + types.Unalias(stT).Underlying().(*types.Struct).Field(fa.Field).Name()
		}
	}
	return "func:" + typeName(t)
}

// ---------------------------------------------------------------- call

func (g *FnGen) call(instr ssa.Instruction, c *ssa.CallCommon, st *State, reach string, res ssa.Value) {
	if b, ok := c.Value.(*ssa.Builtin); ok {
		g.builtin(b.Name(), c, st, reach, res, instr.Pos())
		return
	}
	var ci *calleeInfo
	var args []Term
	if c.IsInvoke() {
		recv := g.val(c.Value)
		g.safe("nil", reach, fmt.Sprintf("(not (= %s 0))", recv.S), instr.Pos())
		args = append(args, recv)
		key := g.w.dynKey(c)
		ci = &calleeInfo{key: key, short: key, con: g.w.contracts[key], dynamic: true, pkg: strings.SplitN(key, ".", 2)[0]}
		sig := c.Method.Type().(*types.Signature)
		pn, pt, rn, rt := sigInfo(sig, false)
		ci.pnames = append([]string{"recv"}, pn...)
		ci.ptypes = append([]types.Type{c.Value.Type()}, pt...)
		ci.rnames, ci.rtypes = rn, rt
		if ci.con != nil && len(ci.con.Params) > 0 {
			ci.pnames = ci.con.Params
		}
	} else if f := c.StaticCallee(); f != nil {
		ci = g.w.calleeOf(f)
		if mc, ok := c.Value.(*ssa.MakeClosure); ok {
			// closure called directly: free variables become leading args? They are FreeVars, not params.
			_ = mc
		}
	} else {
		fv := g.val(c.Value)
		g.safe("nilfunc", reach, fmt.Sprintf("(not (= %s 0))", fv.S), instr.Pos())
		key := g.w.dynKey(c)
		ci = &calleeInfo{key: key, short: key, con: g.w.contracts[key], dynamic: true, pkg: strings.SplitN(key, ".", 2)[0]}
		sig := c.Value.Type().Underlying().(*types.Signature)
		pn, pt, rn, rt := sigInfo(sig, false)
		ci.pnames = append([]string{"fn"}, pn...)
		ci.ptypes = append([]types.Type{c.Value.Type()}, pt...)
		ci.rnames, ci.rtypes = rn, rt
		args = append(args, fv)
		if ci.con != nil && len(ci.con.Params) > 0 {
			ci.pnames = ci.con.Params
		}
	}
	for _, a := range c.Args {
		if p, ok := g.ptrs[a]; ok && p.kind == "cell" {
			args = append(args, p.base)
		} else {
			args = append(args, g.val(a))
		}
	}
	// free variables of a directly called closure
	var fvs map[string]SVal
	g.callCaptured = nil
	if mc, ok := c.Value.(*ssa.MakeClosure); ok {
		fvs = map[string]SVal{}
		fn := mc.Fn.(*ssa.Function)
		g.callCaptured = map[string]types.Type{}
		for _, fv := range fn.FreeVars {
			if pt, ok := fv.Type().(*types.Pointer); ok {
				g.callCaptured[fv.Name()] = pt.Elem()
			}
		}
		for i, b := range mc.Bindings {
			var t Term
			if p, ok := g.ptrs[b]; ok && p.kind == "cell" {
				t = p.base
			} else {
				t = g.val(b)
			}
			fvs[fn.FreeVars[i].Name()] = SVal{t, fn.FreeVars[i].Type()}
		}
	}
	// variadic: ssa already packs variadic args into a slice
	if len(ci.pnames) != len(args) {
		// extern without recv naming etc.: pad names
		for len(ci.pnames) < len(args) {
			ci.pnames = append(ci.pnames, fmt.Sprintf("x%d", len(ci.pnames)))
			ci.ptypes = append(ci.ptypes, nil)
		}
	}
	rs := g.applyContract(ci, args, fvs, st, reach, instr.Pos(), c)
	if res != nil {
		switch len(rs) {
		case 0:
		case 1:
			g.vals[res] = rs[0]
		default:
			g.tuples[res] = rs
		}
	}
}

func (g *FnGen) applyContract(ci *calleeInfo, args []Term, fvs map[string]SVal, st *State, reach string, pos token.Pos, c *ssa.CallCommon) []Term {
	w := g.w
	// intrinsics: exact SMT definitions of a few stdlib functions
	if f, ok := intrinsics[ci.key]; ok {
		t := f(g, args)
		return []Term{g.define(g.fresh("r:"+ci.key), t)}
	}
	vars := map[string]SVal{}
	for i, a := range args {
		var t types.Type
		if i < len(ci.ptypes) {
			t = ci.ptypes[i]
		}
		vars[ci.pnames[i]] = SVal{a, t}
	}
	for k, v := range fvs {
		vars[k] = v
	}
	callOrd := g.ordinal("call." + ci.short)
	con := ci.con
	// call-site assertions of the enclosing function's contract
	for _, cl := range g.clauses("atcall") {
		if cl.Key != ci.key {
			continue
		}
		env := g.envAt(st, g.entry, nil)
		nv := map[string]SVal{}
		for k, v := range env.vars {
			nv[k] = v
		}
		for i, a := range args {
			var t types.Type
			if i < len(ci.ptypes) {
				t = ci.ptypes[i]
			}
			nv[fmt.Sprintf("arg%d", i)] = SVal{a, t}
		}
		env.vars = nv
		if g.curInstr != nil {
			env.at = g.curInstr.Block()
		}
		goal := g.evalBool(env, cl)
		g.oblige("atcall", cl.Label, cl.Props, reach, goal, cl.Src, pos)
	}
	if con == nil && !ci.isModule {
		g.note("no contract for " + ci.key + ": result unconstrained, assumed to have no effect on the module's heap")
	}
	// preconditions
	if con != nil {
		for _, cl := range con.Clauses {
			if cl.Kind != "requires" {
				continue
			}
			env := &Env{g: g, vars: vars, st: st, old: st, pkg: ci.pkg, captured: g.callCaptured}
			goal := g.evalBool(env, cl)
			lab := fmt.Sprintf("%s#%d", ci.short, callOrd)
			if cl.Label != "" {
				lab += "." + cl.Label
			}
			g.oblige("pre", lab, append([]string{"C05"}, cl.Props...), reach, goal, cl.Src, pos)
			g.assume(reach, goal)
		}
		if con.Lock == "R" || con.Lock == "W" {
			g.lockCallCheck(ci, con.Lock, args, st, reach, pos, callOrd)
		}
	}
	before := st.clone()
	// havoc
	mods := map[string]int{}
	for k, v := range ci.mods {
		mods[k] = v
	}
	narrowed := map[string][]Expr{}
	hasNarrow := map[string]bool{}
	var arrRef [][2]string // slice heaps modified at one backing array only
	if con != nil {
		for _, cl := range con.Clauses {
			if cl.Kind != "modifies" {
				continue
			}
			if strings.HasPrefix(cl.Key, "@") {
				// "modifies @s": the backing array of slice parameter s (generic callees: the key depends on the instantiation)
				pv, ok := vars[cl.Key[1:]]
				if !ok || pv.T == nil {
					continue
				}
				sl, ok := types.Unalias(pv.T).Underlying().(*types.Slice)
				if !ok {
					continue
				}
				k, _ := w.sliceKey(sl.Elem())
				if mods[k] == 0 {
					mods[k] = 2
				}
				arrRef = append(arrRef, [2]string{k, fmt.Sprintf("(arr_%s %s)", pv.Sort, pv.S)})
				continue
			}
			for _, k := range w.expandKey(cl.Key) {
				if _, ok := w.heapSort[k]; !ok {
					continue
				}
				if mods[k] == 0 {
					mods[k] = 2
				}
				if len(cl.Refs) > 0 || strings.Contains(cl.Src, ":") {
					narrowed[k] = append(narrowed[k], cl.Refs...)
					hasNarrow[k] = true
				}
			}
		}
	}
	var mk []string
	for k := range mods {
		mk = append(mk, k)
	}
	sort.Strings(mk)
	allocBefore := g.allocTerm(before)
	for _, k := range mk {
		srt, ok := w.heapSort[k]
		if !ok {
			continue
		}
		old := g.hget(st, k)
		isArr := false
		for _, ar := range arrRef {
			if ar[0] == k && !hasNarrow[k] {
				es := srt[len("(Array Int ") : len(srt)-1]
				nv := g.declare(g.fresh("hv:"+k), es)
				st.heap[k] = g.define(g.fresh("H:"+k), Term{fmt.Sprintf("(store %s %s %s)", g.hget(st, k).S, ar[1], nv.S), srt})
				isArr = true
			}
		}
		if isArr {
			continue
		}
		if hasNarrow[k] && len(narrowed[k]) > 0 && len(narrowed[k]) <= 3 && strings.HasPrefix(srt, "(Array Int ") {
			// footprint given as a short list of objects: the new array is the old one updated at exactly those
			// objects (quantifier-free frame). Values at objects allocated by the callee are left as they were,
			// i.e. unconstrained, unless the postcondition speaks about them.
			env := &Env{g: g, vars: vars, st: before, old: before, pkg: ci.pkg}
			es := srt[len("(Array Int ") : len(srt)-1]
			cur := old.S
			for _, r := range narrowed[k] {
				nv := g.declare(g.fresh("hv:"+k), es)
				cur = fmt.Sprintf("(store %s %s %s)", cur, g.eval(env, r).S, nv.S)
			}
			st.heap[k] = g.define(g.fresh("H:"+k), Term{cur, srt})
			continue
		}
		nw := g.havoc(st, k)
		if k == "alloc" {
			g.emit(fmt.Sprintf("(assert (>= %s %s))", nw.S, old.S))
			continue
		}
		if !strings.HasPrefix(srt, "(Array Int ") {
			continue
		}
		if mods[k] == 1 || hasNarrow[k] {
			var excl []string
			env := &Env{g: g, vars: vars, st: before, old: before, pkg: ci.pkg}
			for _, r := range narrowed[k] {
				excl = append(excl, fmt.Sprintf("(not (= r %s))", g.eval(env, r).S))
			}
			cond := fmt.Sprintf("(and (<= r %s) %s)", allocBefore.S, strings.Join(excl, " "))
			if len(excl) == 0 {
				cond = fmt.Sprintf("(<= r %s)", allocBefore.S)
			}
			g.emit(fmt.Sprintf("(assert (forall ((r Int)) (! (=> %s (= (select %s r) (select %s r))) :pattern ((select %s r)))))", cond, nw.S, old.S, nw.S))
			// ground instances for the references in scope, so that the frame does not depend on quantifier instantiation
			if len(excl) == 0 {
				for _, rt := range g.knownRefsFor(k) {
					g.emit(fmt.Sprintf("(assert (=> (<= %s %s) (= (select %s %s) (select %s %s))))", rt, allocBefore.S, nw.S, rt, old.S, rt))
					if strings.HasPrefix(rt, "(arr_Slice_") {
						// the same fact through the element accessor, so that quantified facts stated with it (invariants)
						// are instantiated for the new heap
						f := strings.Fields(strings.Trim(rt, "()"))
						es := "elem_" + strings.TrimPrefix(f[0], "arr_")
						g.emit(fmt.Sprintf("(assert (=> (<= %s %s) (forall ((i Int)) (! (= (%s %s %s i) (%s %s %s i)) :pattern ((%s %s %s i))))))", rt, allocBefore.S, es, nw.S, f[1], es, old.S, f[1], es, nw.S, f[1]))
					}
				}
			}
		}
	}
	if mods["alloc"] > 0 || mods["typ"] > 0 {
		g.typClosed(st)
	}
	if mods["typ"] > 0 {
		// objects allocated by the callee have one of the types it (transitively) allocates
		var alts []string
		for k := range mods {
			if strings.HasPrefix(k, "typ#") {
				alts = append(alts, fmt.Sprintf("(= (select %s r) %s)", g.hget(st, "typ").S, k[4:]))
			}
		}
		sort.Strings(alts)
		g.emit(fmt.Sprintf("(assert (forall ((r Int)) (! (=> (> r %s) (or (= (select %s r) 0) %s)) :pattern ((select %s r)))))", allocBefore.S, g.hget(st, "typ").S, strings.Join(alts, " "), g.hget(st, "typ").S))
	}
	for _, k := range mk {
		if strings.HasPrefix(k, "Mcard:") {
			g.mapWF(st, k)
		}
		if strings.HasPrefix(k, "F:") {
			g.heapClosed(st, k)
		}
	}
	// results
	var rs []Term
	var rvals []SVal
	pure := con != nil && con.Flags["pure"]
	for i, rt := range ci.rtypes {
		srt := w.sortOf(rt)
		var t Term
		if pure {
			var as, ss []string
			for _, a := range args {
				as = append(as, a.S)
				ss = append(ss, a.Sort)
			}
			name := q(fmt.Sprintf("pure:%s:%d", ci.key, i))
			if len(as) == 0 {
				w.decl(name, fmt.Sprintf("(declare-const %s %s)", name, srt))
				t = Term{name, srt}
			} else {
				w.decl(name+strings.Join(ss, ","), fmt.Sprintf("(declare-fun %s (%s) %s)", name, strings.Join(ss, " "), srt))
				t = g.define(g.fresh("r:"+ci.short), Term{fmt.Sprintf("(%s %s)", name, strings.Join(as, " ")), srt})
			}
		} else {
			t = g.declare(g.fresh("r:"+ci.short), srt)
		}
		g.assumeType(t, rt, st)
		rs = append(rs, t)
		rvals = append(rvals, SVal{t, rt})
	}
	// exceptional continuation
	if g.wantX() && !g.inDeferX && !(con != nil && con.Flags["nopanic"]) {
		pan := g.declare(g.fresh("panics"), "Bool")
		xs := st.clone()
		g.w.heapSort["panicking"], g.w.heapSort["panicval"] = "Bool", "Int"
		pv := g.declare(g.fresh("panicval"), "Int")
		g.emit(fmt.Sprintf("(assert (not (= %s 0)))", pv.S))
		xs.heap["panicking"] = Term{"true", "Bool"}
		xs.heap["panicval"] = pv
		if con != nil {
			for _, cl := range con.Clauses {
				if cl.Kind == "xensures" {
					env := &Env{g: g, vars: vars, st: xs, old: before, pkg: ci.pkg, captured: g.callCaptured}
					g.assume(fmt.Sprintf("(and %s %s)", reach, pan.S), g.evalBool(env, cl))
				}
			}
		}
		xb := 0
		if g.curInstr != nil && g.curInstr.Block() != nil {
			xb = g.curInstr.Block().Index
		}
		g.xexits = append(g.xexits, xexit{xb, fmt.Sprintf("(and %s %s)", reach, pan.S), xs, posOf(w, pos) + " call " + ci.short, len(g.defers)})
		// normal continuation: the call returned
		reach = g.define(g.fresh("reach.ret"), Term{fmt.Sprintf("(and %s (not %s))", reach, pan.S), "Bool"}).S
		g.curReach = reach
	}
	if ci.dynamic {
		ck := "Calls:" + ci.key
		w.heapSort[ck] = "Int"
		cnt := g.hget(st, ck)
		st.heap[ck] = g.define(g.fresh("H:"+ck), Term{fmt.Sprintf("(+ %s 1)", cnt.S), "Int"})
		for i, a := range args {
			ak := fmt.Sprintf("CallArg%d:%s", i, ci.key)
			w.heapSort[ak] = a.Sort
			st.heap[ak] = a
		}
	}
	// postconditions
	if con != nil {
		for _, cl := range con.Clauses {
			if cl.Kind != "ensures" || strings.Contains(cl.Src, "callresult(") || strings.Contains(cl.Src, "called(") {
				continue // clauses about the callee's own call sites are not exported to callers
			}
			env := &Env{g: g, vars: vars, st: st, old: before, pkg: ci.pkg, results: rvals, rnames: ci.rnames, captured: g.callCaptured}
			g.assume(reach, g.evalBool(env, cl))
		}
	}
	if g.callRes == nil {
		g.callRes, g.callReach = map[string][]Term{}, map[string]string{}
	}
	g.callRes[fmt.Sprintf("%s#%d", ci.key, callOrd)] = rs
	g.callReach[fmt.Sprintf("%s#%d", ci.key, callOrd)] = reach
	if g.callTag == nil {
		g.callTag = map[string]int{}
	}
	g.callTag[fmt.Sprintf("%s#%d", ci.key, callOrd)] = g.curTag
	// intermediate assertions ("cuts") of the enclosing function's contract placed after this call
	for _, cl := range g.clauses("cut") {
		if cl.Key != ci.key || cl.Loop != callOrd {
			continue
		}
		env := g.envAt(st, g.entry, nil)
		if g.curInstr != nil {
			env.at = g.curInstr.Block()
		}
		goal := g.evalBool(env, cl)
		g.oblige("cut", cl.Label, cl.Props, reach, goal, cl.Src, pos)
		g.assume(reach, goal)
	}

	// global invariants survive calls (they are re-established by every function that could break them: see frame.global)
	if len(mk) > 0 {
		g.assumeGlobals(st, reach)
	}
	return rs
}

func (g *FnGen) wantX() bool {
	if g.con == nil {
		return false
	}
	if g.con.Flags["exceptional"] {
		return true
	}
	for _, c := range g.con.Clauses {
		if c.Kind == "xensures" {
			return true
		}
	}
	return false
}

// ---------------------------------------------------------------- builtins

func (g *FnGen) builtin(name string, c *ssa.CallCommon, st *State, reach string, res ssa.Value, pos token.Pos) {
	w := g.w
	set := func(t Term) {
		if res != nil {
			g.setVal(res, t)
		}
	}
	switch name {
	case "len":
		x := g.val(c.Args[0])
		switch {
		case x.Sort == "String":
			set(Term{fmt.Sprintf("(str.len %s)", x.S), "Int"})
		case strings.HasPrefix(x.Sort, "Slice_"):
			set(Term{fmt.Sprintf("(len_%s %s)", x.Sort, x.S), "Int"})
		default:
			if mt, ok := types.Unalias(c.Args[0].Type()).Underlying().(*types.Map); ok {
				g.lockUse(c.Args[0], st, reach, "read", pos)
				set(g.mapLen(st, mt, x))
				g.mapCardFacts(st, mt, x)
			} else {
				g.unsupp("len of %s", c.Args[0].Type())
			}
		}
	case "cap":
		x := g.val(c.Args[0])
		w.decl("uf:cap"+x.Sort, fmt.Sprintf("(declare-fun cap_%s (%s) Int)", x.Sort, x.Sort))
		set(Term{fmt.Sprintf("(cap_%s %s)", x.Sort, x.S), "Int"})
	case "append":
		g.appendOp(c, st, reach, res, pos)
	case "delete":
		m := g.val(c.Args[0])
		mt := types.Unalias(c.Args[0].Type()).Underlying().(*types.Map)
		g.lockUse(c.Args[0], st, reach, "write", pos)
		g.globalWriteCheck(c.Args[0], reach, pos)
		g.mapDelete(st, mt, m, g.val(c.Args[1]))
	case "clear":
		m := g.val(c.Args[0])
		if mt, ok := types.Unalias(c.Args[0].Type()).Underlying().(*types.Map); ok {
			dom, _, card, ks, _ := w.mapKeys(mt)
			d, cd := g.hget(st, dom), g.hget(st, card)
			g.lockUse(c.Args[0], st, reach, "write", pos)
			g.globalWriteCheck(c.Args[0], reach, pos)
			g.hset(st, dom, Term{fmt.Sprintf("(ite (= %s 0) %s (store %s %s ((as const (Array %s Bool)) false)))", m.S, d.S, d.S, m.S, ks), d.Sort})
			g.hset(st, card, Term{fmt.Sprintf("(ite (= %s 0) %s (store %s %s 0))", m.S, cd.S, cd.S, m.S), cd.Sort})
		} else {
			g.unsupp("clear of slice")
		}
	case "recover":
		w.heapSort["panicking"], w.heapSort["panicval"] = "Bool", "Int"
		p := g.hget(st, "panicking")
		pv := g.hget(st, "panicval")
		set(Term{fmt.Sprintf("(ite %s %s 0)", p.S, pv.S), "Int"})
		st.heap["panicking"] = Term{"false", "Bool"}
		g.note("A3: recover() returns the non-nil panic value while panicking (Go >= 1.21: panic(nil) becomes *runtime.PanicNilError), nil otherwise")
	case "min", "max":
		x, y := g.val(c.Args[0]), g.val(c.Args[1])
		op := "<="
		if name == "max" {
			op = ">="
		}
		set(Term{fmt.Sprintf("(ite (%s %s %s) %s %s)", op, x.S, y.S, x.S, y.S), "Int"})
	case "print", "println":
	case "ssa:wrapnilchk":
		set(g.val(c.Args[0]))
	default:
		g.unsupp("builtin %s", name)
	}
}

func (g *FnGen) appendOp(c *ssa.CallCommon, st *State, reach string, res ssa.Value, pos token.Pos) {
	w := g.w
	s := g.val(c.Args[0])
	sl := types.Unalias(c.Args[0].Type()).Underlying().(*types.Slice)
	key, es := w.sliceKey(sl.Elem())
	ss := s.Sort
	t := g.val(c.Args[1])
	if t.Sort == "String" {
		g.unsupp("append(bytes, string...)")
		return
	}
	// result: a fresh backing array holding s ++ t (aliasing with s's spare capacity is not modelled: A6)
	g.note("A6: append always yields a fresh backing array (no aliasing through spare capacity)")
	// single-element appends appear in SSA as append(s, newslice...) where newslice is a 1-element slice literal
	ref := g.alloc(st)
	h := g.hget(st, key)
	arr := g.declare(g.fresh("apparr"), fmt.Sprintf("(Array Int %s)", es))
	sel := func(x Term, i string) string {
		return w.elemTerm(ss, es, h.S, x.S, i)
	}
	ls, lt := fmt.Sprintf("(len_%s %s)", ss, s.S), fmt.Sprintf("(len_%s %s)", ss, t.S)
	g.emit(fmt.Sprintf("(assert (forall ((i Int)) (! (=> (and (<= 0 i) (< i %s)) (= (select %s i) %s)) :pattern ((select %s i)))))", ls, arr.S, sel(s, "i"), arr.S))
	g.emit(fmt.Sprintf("(assert (forall ((i Int)) (! (=> (and (<= 0 i) (< i %s)) (= (select %s (+ %s i)) %s)) :pattern (%s))))", lt, arr.S, ls, sel(t, "i"), sel(t, "i")))
	// help the common single-element case
	g.emit(fmt.Sprintf("(assert (=> (= %s 1) (= (select %s %s) %s)))", lt, arr.S, ls, sel(t, "0")))
	nh := fmt.Sprintf("(store %s %s %s)", h.S, ref.S, arr.S)
	g.hset(st, key, Term{nh, h.Sort})
	rs := fmt.Sprintf("(mk_%s %s 0 (+ %s %s))", ss, ref.S, ls, lt)
	// the same facts through the element accessor (the form quantified invariants are stated in): the result holds
	// s then t, and every other slice reads as before
	g.emit(fmt.Sprintf("(assert (forall ((i Int)) (! (=> (and (<= 0 i) (< i (+ %s %s))) (= %s (ite (< i %s) %s %s))) :pattern (%s))))",
		ls, lt, w.elemTerm(ss, es, nh, rs, "i"), ls, sel(s, "i"), sel(t, fmt.Sprintf("(- i %s)", ls)), w.elemTerm(ss, es, nh, rs, "i")))
	g.emit(fmt.Sprintf("(assert (forall ((x %s) (i Int)) (! (=> (not (= (arr_%s x) %s)) (= %s %s)) :pattern (%s))))",
		ss, ss, ref.S, w.elemTerm(ss, es, nh, "x", "i"), w.elemTerm(ss, es, h.S, "x", "i"), w.elemTerm(ss, es, nh, "x", "i")))
	if res != nil {
		g.setVal(res, Term{rs, ss})
	}
}

// ---------------------------------------------------------------- intrinsics

var intrinsics = map[string]func(g *FnGen, a []Term) Term{
	"strings.HasPrefix": func(g *FnGen, a []Term) Term {
		return Term{fmt.Sprintf("(str.prefixof %s %s)", a[1].S, a[0].S), "Bool"}
	},
	"strings.HasSuffix": func(g *FnGen, a []Term) Term {
		return Term{fmt.Sprintf("(str.suffixof %s %s)", a[1].S, a[0].S), "Bool"}
	},
	"strings.Index": func(g *FnGen, a []Term) Term {
		return Term{fmt.Sprintf("(str.indexof %s %s 0)", a[0].S, a[1].S), "Int"}
	},
	"strings.IndexByte": func(g *FnGen, a []Term) Term {
		return Term{fmt.Sprintf("(str.indexof %s (str.from_code %s) 0)", a[0].S, a[1].S), "Int"}
	},
	"strings.Contains": func(g *FnGen, a []Term) Term {
		return Term{fmt.Sprintf("(str.contains %s %s)", a[0].S, a[1].S), "Bool"}
	},
	"strings.TrimPrefix": func(g *FnGen, a []Term) Term {
		return Term{fmt.Sprintf("(ite (str.prefixof %s %s) (str.substr %s (str.len %s) (- (str.len %s) (str.len %s))) %s)", a[1].S, a[0].S, a[0].S, a[1].S, a[0].S, a[1].S, a[0].S), "String"}
	},
}

// ---------------------------------------------------------------- locks and globals

func (g *FnGen) heldTerm(st *State, base Term, isTree bool, mode string) string {
	w := g.w
	w.heapSort["F:sync.RWMutex.state"] = "(Array Int Int)"
	tree := base.S
	if !isTree {
		tree = fmt.Sprintf("(select %s %s)", g.hget(st, "F:tree.node.root").S, base.S)
	}
	locker := fmt.Sprintf("(select %s %s)", g.hget(st, "F:tree.Tree.locker").S, tree)
	min := "1"
	if mode == "write" {
		min = "2"
	}
	return fmt.Sprintf("(or (= %s 0) (>= (select %s %s) %s))", locker, g.hget(st, "F:sync.RWMutex.state").S, locker, min)
}

func (g *FnGen) lockEnabled() bool {
	return g.pkg == "tree" && g.w.heapSort["F:tree.Tree.locker"] != ""
}

// prov records, for SSA values loaded from a lock-protected field, the object whose lock guards them.
type provInfo struct {
	base   Term
	isTree bool
	field  string
}

var provTab = map[*FnGen]map[ssa.Value]provInfo{}

func (g *FnGen) lockCheck(p *PtrDesc, st *State, reach, mode string, pos token.Pos) {
	if p.kind != "field" || !g.w.protectedFields[p.key] || !g.lockEnabled() {
		return
	}
	isTree := strings.HasPrefix(p.key, "F:tree.Tree.")
	field := strings.TrimPrefix(strings.TrimPrefix(p.key, "F:tree.node."), "F:tree.Tree.")
	if in, ok := g.curInstr.(*ssa.UnOp); ok && mode == "read" {
		if provTab[g] == nil {
			provTab[g] = map[ssa.Value]provInfo{}
		}
		provTab[g][in] = provInfo{p.base, isTree, field}
	}
	if g.isFreshBase(p) {
		return
	}
	if g.w.immutableFields[p.key] {
		// written only while the object is being constructed (checked here: any other store must be unreachable),
		// so reads need no lock: the object is published under the write lock
		if mode == "read" {
			return
		}
		kind := fmt.Sprintf("lock.immutable(%s)", field)
		k := g.ordinal(kind)
		g.oblige(kind, fmt.Sprint(k), []string{"C06"}, reach, "false", "store to a field that is read without the lock must be unreachable after construction", pos)
		return
	}
	kind := fmt.Sprintf("lock.%s(%s)", mode, field)
	k := g.ordinal(kind)
	g.oblige(kind, fmt.Sprint(k), []string{"C06"}, reach, g.heldTerm(st, p.base, isTree, mode), "", pos)
}

func (g *FnGen) isFreshBase(p *PtrDesc) bool {
	// stores that initialise an object allocated in this function need no lock (not yet shared)
	if fa, ok := g.curInstrAddr().(*ssa.FieldAddr); ok {
		if _, ok := fa.X.(*ssa.Alloc); ok {
			return true
		}
	}
	return false
}

func (g *FnGen) curInstrAddr() ssa.Value {
	switch in := g.curInstr.(type) {
	case *ssa.Store:
		return in.Addr
	case *ssa.UnOp:
		return in.X
	}
	return nil
}

func (g *FnGen) lockUse(v ssa.Value, st *State, reach, mode string, pos token.Pos) {
	if !g.lockEnabled() {
		return
	}
	pi, ok := provTab[g][v]
	if !ok {
		return
	}
	kind := fmt.Sprintf("lock.%s(%s[])", mode, pi.field)
	k := g.ordinal(kind)
	g.oblige(kind, fmt.Sprint(k), []string{"C06"}, reach, g.heldTerm(st, pi.base, pi.isTree, mode), "", pos)
}

func (g *FnGen) lockCallCheck(ci *calleeInfo, mode string, args []Term, st *State, reach string, pos token.Pos, ord int) {
	if len(args) == 0 || !g.lockEnabled() && g.pkg != "mux" {
		return
	}
	isTree := len(ci.ptypes) > 0 && ci.ptypes[0] != nil && strings.Contains(typeName(ci.ptypes[0]), "Tree")
	m := "read"
	if mode == "W" {
		m = "write"
	}
	kind := fmt.Sprintf("lock.call(%s#%d)", ci.short, ord)
	g.oblige(kind, "", []string{"C06"}, reach, g.heldTerm(st, args[0], isTree, m), "", pos)
}

func (g *FnGen) lockExitCheck(st *State, reach string, pos token.Pos) {}

func (g *FnGen) globalWriteCheck(target ssa.Value, reach string, pos token.Pos) {
	name := ""
	switch t := target.(type) {
	case *ssa.Global:
		name = t.Name()
	case *ssa.UnOp:
		if gl, ok := t.X.(*ssa.Global); ok {
			name = gl.Name()
		}
	case *ssa.FieldAddr:
		if u, ok := t.X.(*ssa.UnOp); ok {
			if gl, ok := u.X.(*ssa.Global); ok {
				name = gl.Name()
			}
		}
	}
	if name == "" || g.isInit() {
		return
	}
	kind := fmt.Sprintf("frame.global(%s)", name)
	k := g.ordinal(kind)
	g.oblige(kind, fmt.Sprint(k), []string{"C07"}, reach, "false", "store to package-level state outside init must be unreachable", pos)
}

// knownRefs: the reference-valued SSA values defined so far (parameters, results of earlier calls and loads)
func (g *FnGen) knownRefs() []string {
	seen := map[string]bool{}
	var out []string
	for v, t := range g.vals {
		if t.Sort != "Int" {
			continue
		}
		switch types.Unalias(v.Type()).Underlying().(type) {
		case *types.Pointer, *types.Map:
		default:
			continue
		}
		if _, isConst := v.(*ssa.Const); isConst {
			continue
		}
		if !g.inScope(v) {
			continue
		}
		if !seen[t.S] && strings.HasPrefix(t.S, "|") {
			seen[t.S] = true
			out = append(out, t.S)
		}
	}
	sort.Strings(out)
	if len(out) > 40 {
		out = out[:40]
	}
	return out
}

// knownRefsFor: the references in scope that can index the given heap component (objects of the field's struct
// type, maps of the map type, ...). Keeps the ground frame instances relevant.
func (g *FnGen) knownRefsFor(key string) []string {
	var want string
	switch {
	case strings.HasPrefix(key, "F:"):
		want = key[2:strings.LastIndex(key, ".")] // pkg.Type
	case strings.HasPrefix(key, "Mdom:"), strings.HasPrefix(key, "Mval:"), strings.HasPrefix(key, "Mcard:"):
		want = key[strings.Index(key, ":")+1:]
	case key == "typ":
		return g.knownRefs()
	case strings.HasPrefix(key, "S:"):
		// backing arrays of the slice values in scope whose element heap is this component
		seen := map[string]bool{}
		var out []string
		for v, t := range g.vals {
			sl, ok := types.Unalias(v.Type()).Underlying().(*types.Slice)
			if !ok || !strings.HasPrefix(t.Sort, "Slice_") || !strings.HasPrefix(t.S, "|") || !g.inScope(v) {
				continue
			}
			if k, _ := g.w.sliceKey(sl.Elem()); k != key {
				continue
			}
			a := fmt.Sprintf("(arr_%s %s)", t.Sort, t.S)
			if !seen[a] {
				seen[a] = true
				out = append(out, a)
			}
		}
		sort.Strings(out)
		if len(out) > 12 {
			out = out[:12]
		}
		return out
	default:
		return nil
	}
	seen := map[string]bool{}
	var out []string
	for v, t := range g.vals {
		if t.Sort != "Int" || !strings.HasPrefix(t.S, "|") || seen[t.S] || !g.inScope(v) {
			continue
		}
		vt := types.Unalias(v.Type())
		ok := false
		if p, isPtr := vt.Underlying().(*types.Pointer); isPtr && namedName(p.Elem()) == want {
			ok = true
		}
		if _, isMap := vt.Underlying().(*types.Map); isMap && typeName(vt.Underlying()) == want {
			ok = true
		}
		if ok {
			seen[t.S] = true
			out = append(out, t.S)
		}
	}
	sort.Strings(out)
	if len(out) > 20 {
		out = out[:20]
	}
	return out
}

// inScope: the value is defined in a block whose lines are part of every query sliced for the block being
// generated (the block itself or one of its ancestors).
func (g *FnGen) inScope(v ssa.Value) bool {
	in, ok := v.(ssa.Instruction)
	if !ok || in.Block() == nil {
		return true
	}
	return g.tagInScope(in.Block().Index)
}

// tagInScope: lines emitted under the given tag are part of the queries sliced for the block being generated.
func (g *FnGen) tagInScope(tag int) bool {
	cur := g.curTag
	if tag == -1 || tag == cur || cur == -1 {
		return true
	}
	if tag <= -2 {
		return false // the exceptional continuation of another call
	}
	base := cur
	if base <= -2 {
		xb, ok := g.xtagBlock[base]
		if !ok {
			return true
		}
		base = xb
	}
	if base < 0 || base >= len(g.fn.Blocks) {
		return true
	}
	return tag == base || g.ancestors(base)[tag]
}
