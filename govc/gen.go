package main

import (
	"fmt"
	"go/constant"
	"go/token"
	"go/types"
	"sort"
	"strings"

	"golang.org/x/tools/go/ssa"
)

type Obligation struct {
	Name   string
	Fn     string
	Kind   string
	Label  string
	Props  []string
	NLines int
	Reach  string
	Goal   string
	Pos    string
	Src    string
	// filled by discharge
	Status  string // discharged | failed | unknown
	Solver  string
	Time    float64
	Model   string
	gen     *FnGen
	Bounded bool
	SrcLine string
	// ModelQuery: quantifier-free weakening of the query that has a model (candidate counterexample for replay)
	ModelQuery string
	Tags       map[int]bool // blocks whose lines are relevant (ancestors of the obligation's block); nil = all
}

type State struct {
	heap map[string]Term
}

func (s *State) clone() *State {
	n := &State{heap: make(map[string]Term, len(s.heap))}
	for k, v := range s.heap {
		n.heap[k] = v
	}
	return n
}

type PtrDesc struct {
	kind string // field cell elem global
	key  string
	base Term
	idx  Term
	sort string
	typ  types.Type // element type
}

type loopInfo struct {
	ord    int
	header *ssa.BasicBlock
	body   map[*ssa.BasicBlock]bool
	mods   map[string]bool
}

type deferRec struct {
	instr *ssa.Defer
	reach string
	args  []Term
	recv  Term
}

type FnGen struct {
	w      *World
	fn     *ssa.Function
	key    string
	pkg    string
	con    *Contract
	lines  []string
	obls   []*Obligation
	vals   map[ssa.Value]Term
	tuples map[ssa.Value][]Term
	ptrs   map[ssa.Value]*PtrDesc
	iters  map[ssa.Value]*iterInfo

	initHeap map[string]Term
	entry    *State
	out      map[*ssa.BasicBlock]*State
	reach    map[*ssa.BasicBlock]string
	edges    map[[2]int]string
	loops    map[*ssa.BasicBlock]*loopInfo
	inLoops  map[*ssa.BasicBlock][]*loopInfo
	backEdge map[[2]int]bool
	counters map[string]int
	n        int
	defers   []*deferRec
	debug    map[string][]debugRef

	unsupported  string
	assumptions  map[string]bool
	params       map[string]SVal
	retSites     int
	curInstr     ssa.Instruction
	xexits       []xexit // exceptional exits (call may panic)
	xtagBlock    map[int]int
	nocall       map[string]bool
	callTag      map[string]int // tag (block) in which the k-th call of a callee was generated
	inDeferX     bool
	captured     map[string]types.Type
	callCaptured map[string]types.Type
	symHeap      string
	symKeys      []string
	lineTag      []int
	curTag       int
	anc          map[int]map[int]bool
	curReach     string
	track        map[string]Term
	trackOrder   []string
	callRes      map[string][]Term
	callReach    map[string]string
}

type xexit struct {
	block   int
	reach   string
	st      *State
	pos     string
	ndefers int // deferred calls registered before this point
}

type iterInfo struct {
	isMap   bool
	x       Term
	mt      *types.Map
	key     string // heap key of the visited-set / position
	keySort string
}

type debugRef struct {
	v      ssa.Value
	isAddr bool
	blk    *ssa.BasicBlock
	idx    int
}

func (g *FnGen) emit(s string) {
	g.lines = append(g.lines, s)
	g.lineTag = append(g.lineTag, g.curTag)
}
func (g *FnGen) note(s string)              { g.assumptions[s] = true }
func (g *FnGen) fresh(prefix string) string { g.n++; return q(fmt.Sprintf("%s!%d", prefix, g.n)) }
func (g *FnGen) assume(reach, f string) {
	if reach == "" || reach == "true" {
		g.emit(fmt.Sprintf("(assert %s)", f))
	} else {
		g.emit(fmt.Sprintf("(assert (=> %s %s))", reach, f))
	}
}
func (g *FnGen) declare(name, sort string) Term {
	g.emit(fmt.Sprintf("(declare-const %s %s)", name, sort))
	return Term{name, sort}
}
func (g *FnGen) define(name string, t Term) Term {
	if strings.Contains(t.S, "(ite ") {
		// keep conditionals out of terms that may end up inside quantifier patterns: name the value by a constant
		g.emit(fmt.Sprintf("(declare-const %s %s)", name, t.Sort))
		g.emit(fmt.Sprintf("(assert (= %s %s))", name, t.S))
		return Term{name, t.Sort}
	}
	g.emit(fmt.Sprintf("(define-fun %s () %s %s)", name, t.Sort, t.S))
	return Term{name, t.Sort}
}

func (g *FnGen) unsupp(f string, a ...interface{}) {
	if g.unsupported == "" {
		g.unsupported = fmt.Sprintf(f, a...)
	}
}

func (g *FnGen) ordinal(k string) int {
	g.counters[k]++
	return g.counters[k]
}

func (g *FnGen) oblige(kind, label string, props []string, reach, goal, src string, pos token.Pos) *Obligation {
	name := g.key + "/" + kind
	if label != "" {
		name += "." + label
	}
	o := &Obligation{Name: name, Fn: g.key, Kind: kind, Label: label, Props: props, NLines: len(g.lines), Reach: reach, Goal: goal, Pos: posOf(g.w, pos), Src: src, gen: g}
	o.Tags = g.relevantTags()
	o.SrcLine = g.w.srcLine(pos)
	g.obls = append(g.obls, o)
	return o
}

func (g *FnGen) safeProps() []string {
	ps := []string{"C05"}
	if g.con != nil {
		ps = append(ps, g.con.SafeProps...)
	}
	return ps
}

// safety obligation followed by assumption (execution continues only if the check passed)
func (g *FnGen) safe(kind string, reach, cond string, pos token.Pos) {
	if cond == "true" {
		return
	}
	k := g.ordinal("safe." + kind)
	g.oblige("safe."+kind, fmt.Sprintf("%d", k), g.safeProps(), reach, cond, "", pos)
	g.assume(reach, cond)
}

// ---------------------------------------------------------------- heap helpers

func (g *FnGen) hget(st *State, key string) Term {
	if g.track != nil {
		defer func() {
			if _, seen := g.track[key]; !seen {
				g.track[key] = g.hgetRaw(st, key)
				g.trackOrder = append(g.trackOrder, key)
			}
		}()
	}
	return g.hgetRaw(st, key)
}

func (g *FnGen) hgetRaw(st *State, key string) Term {
	if g.symHeap != "" {
		// symbolic heap of a definitional axiom: every component is a bound variable
		srt, ok := g.w.heapSort[key]
		if !ok {
			panic("unknown heap key " + key)
		}
		seen := false
		for _, k := range g.symKeys {
			if k == key {
				seen = true
			}
		}
		if !seen {
			g.symKeys = append(g.symKeys, key)
		}
		return Term{q(g.symHeap + key), srt}
	}
	if t, ok := st.heap[key]; ok {
		return t
	}
	if t, ok := g.initHeap[key]; ok {
		return t
	}
	srt, ok := g.w.heapSort[key]
	if !ok {
		panic("unknown heap key " + key)
	}
	saved := g.curTag
	g.curTag = -1 // the entry value of a heap component is shared by all blocks
	t := g.declare(q("H0:"+key), srt)
	g.initHeap[key] = t
	if key == "alloc" {
		g.emit(fmt.Sprintf("(assert (>= %s 0))", t.S))
	}
	if strings.HasPrefix(key, "Mcard:") && g.symHeap == "" {
		g.mapWF(&State{heap: map[string]Term{}}, key)
	}
	if strings.HasPrefix(key, "F:") && g.symHeap == "" {
		g.heapClosed(&State{heap: map[string]Term{}}, key)
	}
	if gt, ok := g.w.globalTypes[key]; ok && strings.HasPrefix(key, "G:") && g.symHeap == "" && key != "alloc" {
		// closed heap: a reference held by a package-level variable on entry is an allocated object (or nil)
		switch types.Unalias(gt).Underlying().(type) {
		case *types.Pointer, *types.Map:
			a0 := g.hget(&State{heap: map[string]Term{}}, "alloc")
			g.emit(fmt.Sprintf("(assert (and (<= 0 %s) (<= %s %s)))", t.S, t.S, a0.S))
		}
	}
	g.curTag = saved
	return t
}

func (g *FnGen) hset(st *State, key string, t Term) {
	// name intermediate heap versions to keep terms small
	if len(t.S) > 60 {
		t = g.define(g.fresh("H:"+key), t)
	}
	st.heap[key] = t
}

func (g *FnGen) havoc(st *State, key string) Term {
	t := g.declare(g.fresh("H:"+key), g.w.heapSort[key])
	st.heap[key] = t
	return t
}

func (g *FnGen) alloc(st *State) Term {
	g.w.heapSort["alloc"] = "Int"
	a := g.hget(st, "alloc")
	n := g.define(g.fresh("new"), Term{fmt.Sprintf("(+ %s 1)", a.S), "Int"})
	st.heap["alloc"] = n
	return n
}

// assumeType adds the range facts implied by the Go type of a value.
func (g *FnGen) typeFacts(t Term, typ types.Type, st *State) []string {
	typ = types.Unalias(typ)
	var out []string
	switch u := typ.Underlying().(type) {
	case *types.Basic:
		switch u.Kind() {
		case types.Uint8:
			out = append(out, fmt.Sprintf("(and (<= 0 %s) (<= %s 255))", t.S, t.S))
		case types.Int8:
			out = append(out, fmt.Sprintf("(and (<= (- 128) %s) (<= %s 127))", t.S, t.S))
		case types.Int16:
			out = append(out, fmt.Sprintf("(and (<= (- 32768) %s) (<= %s 32767))", t.S, t.S))
		case types.Uint16:
			out = append(out, fmt.Sprintf("(and (<= 0 %s) (<= %s 65535))", t.S, t.S))
		case types.Int32:
			out = append(out, fmt.Sprintf("(and (<= (- 2147483648) %s) (<= %s 2147483647))", t.S, t.S))
		case types.Uint32:
			out = append(out, fmt.Sprintf("(and (<= 0 %s) (<= %s 4294967295))", t.S, t.S))
		case types.Int, types.Int64:
			out = append(out, fmt.Sprintf("(and (<= (- 9223372036854775808) %s) (<= %s 9223372036854775807))", t.S, t.S))
		case types.Uint, types.Uint64, types.Uintptr:
			out = append(out, fmt.Sprintf("(and (<= 0 %s) (<= %s 18446744073709551615))", t.S, t.S))
		case types.String:
			out = append(out, fmt.Sprintf("(<= (str.len %s) 72057594037927936)", t.S))
		}
	case *types.Slice:
		s := t.Sort
		out = append(out, fmt.Sprintf("(and (<= 0 (len_%s %s)) (<= (len_%s %s) 72057594037927936) (<= 0 (off_%s %s)) (<= 0 (arr_%s %s)))", s, t.S, s, t.S, s, t.S, s, t.S))
		if st != nil {
			out = append(out, fmt.Sprintf("(<= (arr_%s %s) %s)", s, t.S, g.allocTerm(st).S))
			out = append(out, fmt.Sprintf("(=> (= (arr_%s %s) 0) (= (len_%s %s) 0))", s, t.S, s, t.S))
		}
	case *types.Pointer, *types.Map:
		out = append(out, fmt.Sprintf("(<= 0 %s)", t.S))
		if st != nil {
			out = append(out, fmt.Sprintf("(<= %s %s)", t.S, g.allocTerm(st).S))
			if p, ok := u.(*types.Pointer); ok {
				if _, isNamed := types.Unalias(p.Elem()).(*types.Named); isNamed {
					if _, isStruct := p.Elem().Underlying().(*types.Struct); isStruct {
						g.w.heapSort["typ"] = "(Array Int Int)"
						out = append(out, fmt.Sprintf("(or (= %s 0) (= (select %s %s) %d))", t.S, g.hget(st, "typ").S, t.S, g.w.structID(p.Elem())))
					}
				}
			}
		}
	}
	return out
}

func (g *FnGen) allocTerm(st *State) Term {
	g.w.heapSort["alloc"] = "Int"
	return g.hget(st, "alloc")
}

func (g *FnGen) assumeType(t Term, typ types.Type, st *State) {
	for _, f := range g.typeFacts(t, typ, st) {
		g.emit(fmt.Sprintf("(assert %s)", f))
	}
}

// ---------------------------------------------------------------- entry

func NewFnGen(w *World, fn *ssa.Function) *FnGen {
	g := &FnGen{w: w, fn: fn, key: w.funcKey(fn), vals: map[ssa.Value]Term{}, tuples: map[ssa.Value][]Term{}, ptrs: map[ssa.Value]*PtrDesc{},
		initHeap: map[string]Term{}, out: map[*ssa.BasicBlock]*State{}, reach: map[*ssa.BasicBlock]string{}, edges: map[[2]int]string{},
		loops: map[*ssa.BasicBlock]*loopInfo{}, inLoops: map[*ssa.BasicBlock][]*loopInfo{}, backEdge: map[[2]int]bool{}, counters: map[string]int{},
		debug: map[string][]debugRef{}, assumptions: map[string]bool{}, params: map[string]SVal{}, iters: map[ssa.Value]*iterInfo{}}
	g.pkg = strings.SplitN(g.key, ".", 2)[0]
	g.con = w.contracts[g.key]
	g.curTag = -1
	return g
}

func (g *FnGen) clauses(kind string) []*Clause {
	var out []*Clause
	if g.con == nil {
		return nil
	}
	for _, c := range g.con.Clauses {
		if c.Kind == kind {
			out = append(out, c)
		}
	}
	// clauses inherited from implemented interface / func-type contracts (behavioural subtyping)
	for _, ik := range g.con.Implements {
		ic := g.w.contracts[ik]
		if ic == nil {
			panic(specError(fmt.Sprintf("%s implements unknown contract %s", g.key, ik)))
		}
		ren := map[string]string{}
		for i, pn := range ic.Params {
			if i < len(g.fn.Params) {
				ren[pn] = g.fn.Params[i].Name()
			}
		}
		// closures: the func value itself is the first contract parameter
		if len(ic.Params) == len(g.fn.Params)+1 {
			ren = map[string]string{}
			for i, pn := range ic.Params[1:] {
				ren[pn] = g.fn.Params[i].Name()
			}
		}
		for _, c := range ic.Clauses {
			if c.Kind == kind && (kind == "ensures" || kind == "requires" || kind == "xensures") {
				cc := *c
				cc.Label = "iface." + c.Label
				cc.Rename = ren
				out = append(out, &cc)
			}
		}
	}
	return out
}

func (g *FnGen) Generate() {
	defer func() {
		if r := recover(); r != nil {
			if e, ok := r.(specError); ok {
				g.unsupported = "spec error: " + string(e)
				return
			}
			panic(r)
		}
	}()
	fn := g.fn
	g.findLoops()
	for _, b := range fn.Blocks {
		for i, in := range b.Instrs {
			if d, ok := in.(*ssa.DebugRef); ok {
				if id, ok := d.Expr.(interface{ String() string }); ok {
					_ = id
				}
				if obj := d.Object(); obj != nil {
					if v, isVar := obj.(*types.Var); isVar && v.IsField() {
						continue // x.f: the name f denotes the field, not a local
					}
					g.debug[obj.Name()] = append(g.debug[obj.Name()], debugRef{d.X, d.IsAddr, b, i})
				}
			}
		}
	}
	st := &State{heap: map[string]Term{}}
	g.entry = st
	g.w.heapSort["alloc"] = "Int"
	g.hget(st, "alloc")
	// parameters
	for _, p := range fn.Params {
		t := g.declare(q("p:"+p.Name()), g.w.sortOf(p.Type()))
		g.vals[p] = t
		g.assumeType(t, p.Type(), st)
		g.params[p.Name()] = SVal{t, p.Type()}
	}
	for _, fv := range fn.FreeVars {
		t := g.declare(q("fv:"+fv.Name()), g.w.sortOf(fv.Type()))
		g.vals[fv] = t
		g.assumeType(t, fv.Type(), st)
		g.params[fv.Name()] = SVal{t, fv.Type()}
		// closures capture variables by reference: in specifications the name denotes the variable's value
		if pt, ok := fv.Type().(*types.Pointer); ok {
			if g.captured == nil {
				g.captured = map[string]types.Type{}
			}
			g.captured[fv.Name()] = pt.Elem()
			g.emit(fmt.Sprintf("(assert (> %s 0))", t.S)) // a captured variable always exists
		}
	}
	// receiver of a method is never nil? No: Go allows nil receivers. Nothing assumed.
	if fn.Name() == "init" && fn.Synthetic != "" && fn.Pkg != nil {
		// the package initialiser runs exactly once: its guard variable is false on entry
		if gv, ok := fn.Pkg.Members["init$guard"].(*ssa.Global); ok {
			key, _ := g.w.globalKey(gv)
			g.emit(fmt.Sprintf("(assert (not %s))", g.hget(st, key).S))
		}
	}
	g.typClosed(st)
	// global invariants and axioms
	for _, c := range g.w.axioms {
		env := g.envAt(st, st, nil)
		env.pkg = g.w.globalPkg[c]
		env.vars = map[string]SVal{}
		g.assume("", g.evalBool(env, c))
	}
	g.assumeGlobals(st, "true")
	// requires
	for _, c := range g.clauses("requires") {
		env := g.envAt(st, st, nil)
		g.assume("", g.evalBool(env, c))
	}
	// blocks in reverse postorder over forward edges
	order := g.rpo()
	cur := st.clone()
	for _, b := range order {
		if g.unsupported != "" {
			return
		}
		g.block(b, cur)
	}
	g.finishExceptional()
	g.curTag = -1
	g.callsOnly()
}

// finishExceptional: every call that may panic has an exceptional continuation. On it the registered
// deferred calls run with the ghost state panicking=true; if a deferred closure recovers, the function
// returns normally (zero results) and must satisfy its ensures clauses, otherwise its xensures clauses.
func (g *FnGen) finishExceptional() {
	if !g.wantX() {
		return
	}
	w := g.w
	w.heapSort["panicking"], w.heapSort["panicval"], w.heapSort["recovered"] = "Bool", "Int", "Bool"
	g.xtagBlock = map[int]int{}
	for i, x := range g.xexits {
		g.curTag = -2 - i
		g.xtagBlock[g.curTag] = x.block
		st := x.st
		reach := g.define(g.fresh(fmt.Sprintf("xreach.%d", i)), Term{x.reach, "Bool"}).S
		g.runDefersX(st, reach, x.ndefers)
		pan := g.hget(st, "panicking").S
		// still panicking: exceptional postconditions
		for _, c := range g.clauses("xensures") {
			env := g.envAt(st, g.entry, nil)
			goal := g.evalBool(env, c)
			g.oblige("xpost", c.Label, c.Props, fmt.Sprintf("(and %s %s)", reach, pan), goal, c.Src, 0).Pos = x.pos
		}
		// recovered: normal postconditions with zero results
		var rs []SVal
		res := g.fn.Signature.Results()
		for j := 0; j < res.Len(); j++ {
			rs = append(rs, SVal{w.zero(res.At(j).Type()), res.At(j).Type()})
		}
		st.heap["recovered"] = Term{"true", "Bool"}
		for _, c := range g.clauses("ensures") {
			env := g.envAt(st, g.entry, rs)
			goal := g.evalBool(env, c)
			g.oblige("post", c.Label, c.Props, fmt.Sprintf("(and %s (not %s))", reach, pan), goal, c.Src, 0).Pos = x.pos + " (recovered)"
		}
	}
}

func (g *FnGen) runDefersX(st *State, reach string, n int) {
	for i := n - 1; i >= 0; i-- {
		d := g.defers[i]
		if xb, ok := g.xtagBlock[g.curTag]; ok {
			db := d.instr.Block().Index
			if xb != db && !g.ancestors(xb)[db] {
				continue
			}
		}
		cond := fmt.Sprintf("(and %s %s)", reach, d.reach)
		before := st.clone()
		saveX := g.xexits
		g.inDeferX = true
		g.call(d.instr, d.instr.Common(), st, cond, nil)
		g.inDeferX = false
		g.xexits = saveX
		for k, after := range st.heap {
			b := g.hget(before, k)
			if b.S != after.S {
				st.heap[k] = g.define(g.fresh("H:"+k), Term{fmt.Sprintf("(ite %s %s %s)", d.reach, after.S, b.S), after.Sort})
			}
		}
	}
}

// callsOnly: syntactic obligation that the body calls nothing outside the listed callees.
func (g *FnGen) callsOnly() {
	for _, c := range g.clauses("callsonly") {
		allowed := map[string]bool{}
		for _, k := range strings.Split(c.Key, ",") {
			allowed[strings.TrimSpace(k)] = true
		}
		var bad []string
		for _, b := range g.fn.Blocks {
			for _, in := range b.Instrs {
				cc, ok := in.(ssa.CallInstruction)
				if !ok {
					continue
				}
				com := cc.Common()
				if _, isB := com.Value.(*ssa.Builtin); isB {
					continue
				}
				var key string
				if f := com.StaticCallee(); f != nil && !com.IsInvoke() {
					key = g.w.funcKey(f)
				} else {
					key = g.w.dynKey(com)
				}
				if !allowed[key] {
					bad = append(bad, key)
				}
			}
		}
		goal := "true"
		if len(bad) > 0 {
			goal = "false"
		}
		o := g.oblige("calls", c.Label, c.Props, "true", goal, "callsonly "+c.Key, g.fn.Pos())
		if len(bad) > 0 {
			o.Src += " -- also calls: " + strings.Join(bad, ", ")
		}
	}
}

func (g *FnGen) isInit() bool {
	return g.fn.Name() == "init" || strings.HasPrefix(g.fn.Name(), "init#")
}

func (g *FnGen) assumeGlobals(st *State, reach string) {
	// package initialisers establish the global invariants (checked at their exit); functions they call
	// before that must not rely on them (contract flag noglobals)
	if g.isInit() || (g.con != nil && g.con.Flags["noglobals"]) {
		return
	}
	for _, c := range g.w.globals {
		env := g.envAt(st, st, nil)
		env.pkg = g.w.globalPkg[c]
		g.assume(reach, g.evalBool(env, c))
	}
}

func (g *FnGen) findLoops() {
	fn := g.fn
	ord := 0
	for _, h := range fn.Blocks {
		var li *loopInfo
		for _, p := range h.Preds {
			if h.Dominates(p) {
				g.backEdge[[2]int{p.Index, h.Index}] = true
				if li == nil {
					ord++
					li = &loopInfo{ord: ord, header: h, body: map[*ssa.BasicBlock]bool{h: true}, mods: map[string]bool{}}
					g.loops[h] = li
				}
				// natural loop: nodes reaching p without passing h
				stack := []*ssa.BasicBlock{p}
				for len(stack) > 0 {
					x := stack[len(stack)-1]
					stack = stack[:len(stack)-1]
					if li.body[x] {
						continue
					}
					li.body[x] = true
					stack = append(stack, x.Preds...)
				}
			}
		}
	}
	for _, li := range g.loops {
		for b := range li.body {
			g.inLoops[b] = append(g.inLoops[b], li)
			for _, in := range b.Instrs {
				for k := range g.w.instrMods(in) {
					li.mods[k] = true
				}
				if r, ok := in.(*ssa.Range); ok {
					li.mods[iterKey(r)] = true
				}
				// the iterator is created before the loop and advanced by Next inside it
				if nx, ok := in.(*ssa.Next); ok {
					if r, ok := nx.Iter.(*ssa.Range); ok {
						li.mods[iterKey(r)] = true
					}
				}
			}
		}
	}
}

func iterKey(r *ssa.Range) string { return "IT:" + r.Name() }

func (g *FnGen) rpo() []*ssa.BasicBlock {
	seen := map[*ssa.BasicBlock]bool{}
	var post []*ssa.BasicBlock
	var dfs func(b *ssa.BasicBlock)
	dfs = func(b *ssa.BasicBlock) {
		seen[b] = true
		for _, s := range b.Succs {
			if g.backEdge[[2]int{b.Index, s.Index}] || seen[s] {
				continue
			}
			dfs(s)
		}
		post = append(post, b)
	}
	dfs(g.fn.Blocks[0])
	for i, j := 0, len(post)-1; i < j; i, j = i+1, j-1 {
		post[i], post[j] = post[j], post[i]
	}
	return post
}

// ---------------------------------------------------------------- blocks

func (g *FnGen) mergeIn(b *ssa.BasicBlock, entry *State) (*State, string, [][2]interface{}) {
	type inc struct {
		cond string
		st   *State
		pred *ssa.BasicBlock
	}
	var incs []inc
	if b.Index == 0 {
		return entry.clone(), "true", nil
	}
	for _, p := range b.Preds {
		if g.backEdge[[2]int{p.Index, b.Index}] {
			continue
		}
		c, ok := g.edges[[2]int{p.Index, b.Index}]
		if !ok {
			continue // unreachable pred
		}
		incs = append(incs, inc{c, g.out[p], p})
	}
	if len(incs) == 0 {
		return entry.clone(), "false", nil
	}
	var conds []string
	for _, i := range incs {
		conds = append(conds, i.cond)
	}
	reach := conds[0]
	if len(conds) > 1 {
		reach = "(or " + strings.Join(conds, " ") + ")"
	}
	st := &State{heap: map[string]Term{}}
	keys := map[string]bool{}
	for _, i := range incs {
		for k := range i.st.heap {
			keys[k] = true
		}
	}
	var ks []string
	for k := range keys {
		ks = append(ks, k)
	}
	sort.Strings(ks)
	for _, k := range ks {
		var ts []Term
		same := true
		for _, i := range incs {
			t := g.hget(i.st, k)
			ts = append(ts, t)
			if t.S != ts[0].S {
				same = false
			}
		}
		if same {
			st.heap[k] = ts[0]
			continue
		}
		// one constant per merged component, equal to the incoming value on each edge (friendlier to E-matching than ite terms)
		h := g.declare(g.fresh("H:"+k), ts[0].Sort)
		for j := range ts {
			g.emit(fmt.Sprintf("(assert (=> %s (= %s %s)))", incs[j].cond, h.S, ts[j].S))
		}
		st.heap[k] = h
	}
	var preds [][2]interface{}
	for _, i := range incs {
		preds = append(preds, [2]interface{}{i.pred, i.cond})
	}
	return st, reach, preds
}

// relevantTags: lines emitted by blocks that cannot reach the current block only carry assumptions guarded by
// reach conditions that are false on every path to the obligation; they are left out of its query.
func (g *FnGen) relevantTags() map[int]bool {
	if g.curTag == -1 {
		return nil
	}
	t := map[int]bool{-1: true, g.curTag: true}
	base := g.curTag
	if base <= -2 {
		base = g.xtagBlock[base]
	}
	for a := range g.ancestors(base) {
		t[a] = true
	}
	t[base] = true
	return t
}

func (g *FnGen) ancestors(b int) map[int]bool {
	if g.anc == nil {
		g.anc = map[int]map[int]bool{}
	}
	if a, ok := g.anc[b]; ok {
		return a
	}
	a := map[int]bool{}
	var walk func(i int)
	walk = func(i int) {
		for _, p := range g.fn.Blocks[i].Preds {
			if g.backEdge[[2]int{p.Index, i}] || a[p.Index] {
				continue
			}
			a[p.Index] = true
			walk(p.Index)
		}
	}
	walk(b)
	g.anc[b] = a
	return a
}

func (g *FnGen) block(b *ssa.BasicBlock, entry *State) {
	g.curTag = b.Index
	st, reachExpr, preds := g.mergeIn(b, entry)
	rname := q(fmt.Sprintf("reach.%d", b.Index))
	g.emit(fmt.Sprintf("(define-fun %s () Bool %s)", rname, reachExpr))
	reach := rname
	g.reach[b] = reach

	li := g.loops[b]
	// phis
	phiVal := func(phi *ssa.Phi, wantBack bool, from *ssa.BasicBlock) Term { return Term{} }
	_ = phiVal
	if li != nil {
		// loop header: check invariants on entry with phis bound to entry values
		entryPhis := map[*ssa.Phi]Term{}
		for _, in := range b.Instrs {
			phi, ok := in.(*ssa.Phi)
			if !ok {
				break
			}
			entryPhis[phi] = g.phiMerge(phi, preds)
		}
		for _, c := range g.clauses("inv") {
			if c.Loop != li.ord {
				continue
			}
			env := g.envAt(st, g.entry, nil)
			env.loop = li
			env.phiOverride = entryPhis
			env.at = b
			goal := g.evalBool(env, c)
			g.oblige(fmt.Sprintf("loop%d.init", li.ord), c.Label, c.Props, reach, goal, c.Src, b.Instrs[0].Pos())
		}
		// havoc
		var mk []string
		for k := range li.mods {
			mk = append(mk, k)
		}
		sort.Strings(mk)
		for _, k := range mk {
			if _, ok := g.w.heapSort[k]; !ok {
				continue
			}
			old := g.hget(st, k)
			nw := g.havoc(st, k)
			if k == "alloc" {
				g.emit(fmt.Sprintf("(assert (>= %s %s))", nw.S, old.S))
			}
		}
		if li.mods["alloc"] || li.mods["typ"] {
			g.typClosed(st)
		}
		for _, k := range mk {
			if strings.HasPrefix(k, "Mcard:") {
				g.mapWF(st, k)
			}
			if strings.HasPrefix(k, "F:") {
				g.heapClosed(st, k)
			}
		}
		for _, in := range b.Instrs {
			phi, ok := in.(*ssa.Phi)
			if !ok {
				break
			}
			t := g.declare(q(phi.Name()), g.w.sortOf(phi.Type()))
			g.vals[phi] = t
			g.assumeType(t, phi.Type(), st)
		}
		for _, c := range g.clauses("inv") {
			if c.Loop != li.ord {
				continue
			}
			env := g.envAt(st, g.entry, nil)
			env.loop = li
			env.at = b
			g.assume(reach, g.evalBool(env, c))
		}
	} else {
		for _, in := range b.Instrs {
			phi, ok := in.(*ssa.Phi)
			if !ok {
				break
			}
			t := g.phiMerge(phi, preds)
			g.vals[phi] = g.define(q(phi.Name()), t)
			if pd := g.phiPtr(phi); pd != nil {
				g.ptrs[phi] = pd
			}
		}
	}
	for _, in := range b.Instrs {
		if _, ok := in.(*ssa.Phi); ok {
			continue
		}
		if g.unsupported != "" {
			return
		}
		g.curInstr = in
		g.curReach = reach
		g.instr(in, st, reach, b)
		reach = g.curReach
	}
	g.out[b] = st
}

func (g *FnGen) phiPtr(phi *ssa.Phi) *PtrDesc { return nil }

func (g *FnGen) phiMerge(phi *ssa.Phi, preds [][2]interface{}) Term {
	b := phi.Block()
	var ts []Term
	var cs []string
	for _, pc := range preds {
		p := pc[0].(*ssa.BasicBlock)
		for i, bp := range b.Preds {
			if bp == p {
				ts = append(ts, g.val(phi.Edges[i]))
				cs = append(cs, pc[1].(string))
				break
			}
		}
	}
	if len(ts) == 0 {
		return g.w.zero(phi.Type())
	}
	s := ts[len(ts)-1].S
	for j := len(ts) - 2; j >= 0; j-- {
		if ts[j].S != s {
			s = fmt.Sprintf("(ite %s %s %s)", cs[j], ts[j].S, s)
		}
	}
	return Term{s, ts[0].Sort}
}

// ---------------------------------------------------------------- values

func (g *FnGen) constTerm(c *ssa.Const) Term {
	t := c.Type()
	if c.Value == nil {
		return g.w.zero(t)
	}
	switch c.Value.Kind() {
	case constant.Bool:
		if constant.BoolVal(c.Value) {
			return Term{"true", "Bool"}
		}
		return Term{"false", "Bool"}
	case constant.String:
		return Term{smtStr(constant.StringVal(c.Value)), "String"}
	case constant.Int:
		s := c.Value.ExactString()
		if strings.HasPrefix(s, "-") {
			s = "(- " + s[1:] + ")"
		}
		return Term{s, "Int"}
	case constant.Float:
		g.note("float constants are opaque")
		return Term{"0", "Int"}
	}
	g.unsupp("constant %v", c)
	return Term{"0", "Int"}
}

func (g *FnGen) val(v ssa.Value) Term {
	if t, ok := g.vals[v]; ok {
		return t
	}
	switch v := v.(type) {
	case *ssa.Const:
		return g.constTerm(v)
	case *ssa.Function:
		return g.funcValue(v)
	case *ssa.Global:
		// address of a global used as value: only loads/stores supported (ptr desc)
		return Term{"0", "Int"}
	case *ssa.Builtin:
		return Term{"0", "Int"}
	}
	if _, ok := g.ptrs[v]; ok {
		return Term{"0", "Int"} // address value; only used through ptrs
	}
	g.unsupp("value %s (%T) used before definition", v.Name(), v)
	return Term{"0", g.w.sortOf(v.Type())}
}

func (g *FnGen) funcValue(f *ssa.Function) Term {
	k := g.w.funcKey(f)
	id := g.w.typeID(types.NewTuple()) // dummy to advance ids
	_ = id
	name := q("fn:" + k)
	g.w.decl("fn:"+k, fmt.Sprintf("(declare-const %s Int)\n(assert (> %s 0))", name, name))
	return Term{name, "Int"}
}

func (g *FnGen) ptr(v ssa.Value, st *State) *PtrDesc {
	if p, ok := g.ptrs[v]; ok {
		return p
	}
	if gl, ok := v.(*ssa.Global); ok {
		key, srt := g.w.globalKey(gl)
		return &PtrDesc{kind: "global", key: key, sort: srt, typ: gl.Type().(*types.Pointer).Elem()}
	}
	// generic pointer value: by type
	pt, ok := types.Unalias(v.Type()).Underlying().(*types.Pointer)
	if !ok {
		g.unsupp("pointer op on non-pointer %s", v.Name())
		return &PtrDesc{kind: "cell", key: "C:int", sort: "Int"}
	}
	elem := pt.Elem()
	if _, isStruct := types.Unalias(elem).Underlying().(*types.Struct); isStruct {
		return &PtrDesc{kind: "struct", base: g.val(v), typ: elem}
	}
	key, srt := g.w.cellKey(elem)
	return &PtrDesc{kind: "cell", key: key, base: g.val(v), sort: srt, typ: elem}
}

func (g *FnGen) load(p *PtrDesc, st *State, reach string, pos token.Pos) Term {
	switch p.kind {
	case "field", "cell":
		return Term{fmt.Sprintf("(select %s %s)", g.hget(st, p.key).S, p.base.S), p.sort}
	case "global":
		return g.hget(st, p.key)
	case "elem":
		ss := p.base.Sort
		return Term{g.w.elemTerm(ss, p.sort, g.hget(st, p.key).S, p.base.S, p.idx.S), p.sort}
	case "struct":
		stt := types.Unalias(p.typ).Underlying().(*types.Struct)
		var fs []string
		for i := 0; i < stt.NumFields(); i++ {
			key, _ := g.w.fieldKey(p.typ, i)
			fs = append(fs, fmt.Sprintf("(select %s %s)", g.hget(st, key).S, p.base.S))
		}
		if len(fs) == 0 {
			fs = []string{"0"}
		}
		srt := g.w.sortOf(p.typ)
		return Term{fmt.Sprintf("(%s %s)", q("mk:"+namedName(p.typ)), strings.Join(fs, " ")), srt}
	}
	panic("load kind " + p.kind)
}

func (g *FnGen) store(p *PtrDesc, v Term, st *State) {
	switch p.kind {
	case "field", "cell":
		g.hset(st, p.key, Term{fmt.Sprintf("(store %s %s %s)", g.hget(st, p.key).S, p.base.S, v.S), g.w.heapSort[p.key]})
	case "global":
		st.heap[p.key] = v
	case "elem":
		ss := p.base.Sort
		h := g.hget(st, p.key).S
		arr := fmt.Sprintf("(arr_%s %s)", ss, p.base.S)
		nh := fmt.Sprintf("(store %s %s (store (select %s %s) (+ (off_%s %s) %s) %s))", h, arr, h, arr, ss, p.base.S, p.idx.S, v.S)
		g.hset(st, p.key, Term{nh, g.w.heapSort[p.key]})
		g.sliceStoreFrame(ss, p.sort, h, nh, arr, fmt.Sprintf("(+ (off_%s %s) %s)", ss, p.base.S, p.idx.S))
	case "struct":
		stt := types.Unalias(p.typ).Underlying().(*types.Struct)
		for i := 0; i < stt.NumFields(); i++ {
			key, srt := g.w.fieldKey(p.typ, i)
			fv := Term{fmt.Sprintf("(%s %s)", g.w.structAcc(p.typ, i), v.S), srt}
			g.hset(st, key, Term{fmt.Sprintf("(store %s %s %s)", g.hget(st, key).S, p.base.S, fv.S), g.w.heapSort[key]})
		}
	}
}

// sliceStoreFrame: after an update of one backing array (at one position, or wholesale when pos is empty) every
// other element reads as before - stated through the element accessor, the form quantified invariants use.
// A consequence of the array theory, added only to guide instantiation.
func (g *FnGen) sliceStoreFrame(ss, es, oldH, newH, ref, pos string) {
	w := g.w
	cond := fmt.Sprintf("(not (= (arr_%s x) %s))", ss, ref)
	if pos != "" {
		cond = fmt.Sprintf("(or %s (not (= (+ (off_%s x) i) %s)))", cond, ss, pos)
	}
	nt := w.elemTerm(ss, es, newH, "x", "i")
	g.emit(fmt.Sprintf("(assert (forall ((x %s) (i Int)) (! (=> %s (= %s %s)) :pattern (%s))))", ss, cond, nt, w.elemTerm(ss, es, oldH, "x", "i"), nt))
}

// ---------------------------------------------------------------- instructions

func (g *FnGen) setVal(v ssa.Value, t Term) {
	if t.Sort == "TUPLE" {
		return
	}
	g.vals[v] = g.define(q(v.Name()), t)
}

func (g *FnGen) instr(in ssa.Instruction, st *State, reach string, b *ssa.BasicBlock) {
	w := g.w
	switch in := in.(type) {
	case *ssa.DebugRef:
	case *ssa.Alloc:
		elem := in.Type().(*types.Pointer).Elem()
		ref := g.alloc(st)
		g.vals[in] = ref
		if stt, ok := types.Unalias(elem).Underlying().(*types.Struct); ok {
			for i := 0; i < stt.NumFields(); i++ {
				key, _ := w.fieldKey(elem, i)
				z := w.zero(stt.Field(i).Type())
				g.hset(st, key, Term{fmt.Sprintf("(store %s %s %s)", g.hget(st, key).S, ref.S, z.S), w.heapSort[key]})
			}
			if _, isNamed := types.Unalias(elem).(*types.Named); isNamed {
				w.heapSort["typ"] = "(Array Int Int)"
				g.hset(st, "typ", Term{fmt.Sprintf("(store %s %s %d)", g.hget(st, "typ").S, ref.S, w.structID(elem)), "(Array Int Int)"})
			}
			// ghost fields of scalar sort start at the zero of their sort ("" / 0 / false: an unlocked mutex, an empty
			// builder); ghost fields of other sorts keep arbitrary values
			g.zeroGhosts(st, elem, ref, 0)
		} else if at, ok := types.Unalias(elem).Underlying().(*types.Array); ok {
			// backing array of a slice literal / variadic pack: a fresh slice-heap object
			key, es := w.sliceKey(at.Elem())
			z := w.zero(at.Elem())
			oh := g.hget(st, key).S
			nh := fmt.Sprintf("(store %s %s ((as const (Array Int %s)) %s))", oh, ref.S, es, z.S)
			g.hset(st, key, Term{nh, w.heapSort[key]})
			g.sliceStoreFrame(w.sliceSort(es), es, oh, nh, ref.S, "")
		} else {
			key, srt := w.cellKey(elem)
			g.ptrs[in] = &PtrDesc{kind: "cell", key: key, base: ref, sort: srt, typ: elem}
			z := w.zero(elem)
			g.hset(st, key, Term{fmt.Sprintf("(store %s %s %s)", g.hget(st, key).S, ref.S, z.S), w.heapSort[key]})
		}
	case *ssa.FieldAddr:
		base := g.val(in.X)
		stT := in.X.Type().Underlying().(*types.Pointer).Elem()
		g.safe("nil", reach, fmt.Sprintf("(not (= %s 0))", base.S), in.Pos())
		key, srt := w.fieldKey(stT, in.Field)
		ft := types.Unalias(stT).Underlying().(*types.Struct).Field(in.Field).Type()
		if _, isStruct := types.Unalias(ft).Underlying().(*types.Struct); isStruct {
			// address of an embedded struct value: derived object
			n := q("sub:" + key)
			w.decl("sub:"+key, fmt.Sprintf("(declare-fun %s (Int) Int)\n(assert (forall ((x Int)) (! (=> (> x 0) (> (%s x) 0)) :pattern ((%s x)))))", n, n, n))
			g.vals[in] = Term{fmt.Sprintf("(%s %s)", n, base.S), "Int"}
			return
		}
		g.ptrs[in] = &PtrDesc{kind: "field", key: key, base: base, sort: srt, typ: ft}
	case *ssa.Field:
		x := g.val(in.X)
		g.setVal(in, Term{fmt.Sprintf("(%s %s)", w.structAcc(in.X.Type(), in.Field), x.S), w.sortOf(in.Type())})
	case *ssa.IndexAddr:
		x := g.val(in.X)
		idx := g.val(in.Index)
		sl, ok := types.Unalias(in.X.Type()).Underlying().(*types.Slice)
		if !ok {
			if pa, ok2 := types.Unalias(in.X.Type()).Underlying().(*types.Pointer); ok2 {
				if at, ok3 := types.Unalias(pa.Elem()).Underlying().(*types.Array); ok3 {
					ss := w.sliceSort(w.sortOf(at.Elem()))
					x = Term{fmt.Sprintf("(mk_%s %s 0 %d)", ss, x.S, at.Len()), ss}
					sl = types.NewSlice(at.Elem())
					ok = true
				}
			}
		}
		if !ok {
			g.unsupp("IndexAddr on %s", in.X.Type())
			return
		}
		g.safe("index", reach, fmt.Sprintf("(and (<= 0 %s) (< %s (len_%s %s)))", idx.S, idx.S, x.Sort, x.S), in.Pos())
		key, srt := w.sliceKey(sl.Elem())
		g.ptrs[in] = &PtrDesc{kind: "elem", key: key, base: x, idx: idx, sort: srt, typ: sl.Elem()}
	case *ssa.Index:
		x := g.val(in.X)
		idx := g.val(in.Index)
		if x.Sort == "String" {
			g.safe("index", reach, fmt.Sprintf("(and (<= 0 %s) (< %s (str.len %s)))", idx.S, idx.S, x.S), in.Pos())
			t := Term{fmt.Sprintf("(str.to_code (str.at %s %s))", x.S, idx.S), "Int"}
			v := g.define(q(in.Name()), t)
			g.vals[in] = v
			g.assume(reach, fmt.Sprintf("(and (<= 0 %s) (<= %s 255))", v.S, v.S))
			g.note("A5: string bytes are codes 0..255")
			return
		}
		g.unsupp("Index on %s", in.X.Type())
	case *ssa.UnOp:
		switch in.Op {
		case token.MUL:
			p := g.ptr(in.X, st)
			if p.kind == "cell" || p.kind == "struct" {
				if _, isAlloc := in.X.(*ssa.Alloc); !isAlloc {
					g.safe("nil", reach, fmt.Sprintf("(not (= %s 0))", p.base.S), in.Pos())
				}
			}
			g.lockCheck(p, st, reach, "read", in.Pos())
			v := g.load(p, st, reach, in.Pos())
			g.setVal(in, v)
			g.assumeType(g.vals[in], in.Type(), st)
		case token.NOT:
			g.setVal(in, Term{fmt.Sprintf("(not %s)", g.val(in.X).S), "Bool"})
		case token.SUB:
			g.setVal(in, Term{fmt.Sprintf("(- %s)", g.val(in.X).S), "Int"})
		default:
			g.unsupp("unop %s", in.Op)
		}
	case *ssa.Store:
		p := g.ptr(in.Addr, st)
		if p.kind == "cell" || p.kind == "struct" {
			if _, isAlloc := in.Addr.(*ssa.Alloc); !isAlloc {
				g.safe("nil", reach, fmt.Sprintf("(not (= %s 0))", p.base.S), in.Pos())
			}
		}
		g.lockCheck(p, st, reach, "write", in.Pos())
		g.globalWriteCheck(in.Addr, reach, in.Pos())
		g.store(p, g.val(in.Val), st)
	case *ssa.BinOp:
		g.binop(in, st, reach)
	case *ssa.Phi:
	case *ssa.ChangeType, *ssa.ChangeInterface:
		var x ssa.Value
		if c, ok := in.(*ssa.ChangeType); ok {
			x = c.X
		} else {
			x = in.(*ssa.ChangeInterface).X
		}
		g.setVal(in.(ssa.Value), g.val(x))
	case *ssa.Convert:
		g.convert(in, st, reach)
	case *ssa.MakeInterface:
		x := g.val(in.X)
		g.setVal(in, w.box(in.X.Type(), x))
	case *ssa.TypeAssert:
		x := g.val(in.X)
		if _, isIface := types.Unalias(in.AssertedType).Underlying().(*types.Interface); isIface {
			g.note("type assertion to interface type " + typeName(in.AssertedType) + " modelled as identity with unknown success")
			ok := g.declare(g.fresh("taok"), "Bool")
			if in.CommaOk {
				g.tuples[in] = []Term{x, ok}
			} else {
				g.oblige("safe.typeassert", fmt.Sprint(g.ordinal("safe.typeassert")), []string{"C05"}, reach, ok.S, "", in.Pos())
				g.setVal(in, x)
			}
			return
		}
		id := w.typeID(in.AssertedType)
		okT := fmt.Sprintf("(and (not (= %s 0)) (= (typeof %s) %d))", x.S, x.S, id)
		v := w.unbox(in.AssertedType, x)
		if in.CommaOk {
			g.tuples[in] = []Term{{fmt.Sprintf("(ite %s %s %s)", okT, v.S, w.zero(in.AssertedType).S), v.Sort}, {okT, "Bool"}}
		} else {
			g.safe("typeassert", reach, okT, in.Pos())
			g.setVal(in, v)
		}
	case *ssa.Extract:
		ts, ok := g.tuples[in.Tuple]
		if !ok || in.Index >= len(ts) {
			g.unsupp("extract from unknown tuple %s", in.Tuple.Name())
			return
		}
		g.setVal(in, ts[in.Index])
	case *ssa.MakeMap:
		mt := types.Unalias(in.Type()).Underlying().(*types.Map)
		dom, _, card, ks, _ := w.mapKeys(mt)
		ref := g.alloc(st)
		g.vals[in] = ref
		g.hset(st, dom, Term{fmt.Sprintf("(store %s %s ((as const (Array %s Bool)) false))", g.hget(st, dom).S, ref.S, ks), w.heapSort[dom]})
		g.hset(st, card, Term{fmt.Sprintf("(store %s %s 0)", g.hget(st, card).S, ref.S), w.heapSort[card]})
	case *ssa.MakeSlice:
		sl := types.Unalias(in.Type()).Underlying().(*types.Slice)
		key, es := w.sliceKey(sl.Elem())
		ref := g.alloc(st)
		ln := g.val(in.Len)
		g.safe("makeslice", reach, fmt.Sprintf("(<= 0 %s)", ln.S), in.Pos())
		ss := w.sortOf(in.Type())
		z := w.zero(sl.Elem())
		oh := g.hget(st, key).S
		nh := fmt.Sprintf("(store %s %s ((as const (Array Int %s)) %s))", oh, ref.S, es, z.S)
		g.hset(st, key, Term{nh, w.heapSort[key]})
		g.sliceStoreFrame(ss, es, oh, nh, ref.S, "")
		g.setVal(in, Term{fmt.Sprintf("(mk_%s %s 0 %s)", ss, ref.S, ln.S), ss})
	case *ssa.MakeClosure:
		f := in.Fn.(*ssa.Function)
		k := w.funcKey(f)
		var args, sorts []string
		for _, bnd := range in.Bindings {
			var t Term
			if p, ok := g.ptrs[bnd]; ok && p.kind == "cell" {
				t = p.base
			} else {
				t = g.val(bnd)
			}
			args = append(args, t.S)
			sorts = append(sorts, t.Sort)
		}
		name := q("clo:" + k)
		if len(args) == 0 {
			g.vals[in] = g.funcValue(f)
			return
		}
		w.decl("clo:"+k, fmt.Sprintf("(declare-fun %s (%s) Int)", name, strings.Join(sorts, " ")))
		v := g.define(q(in.Name()), Term{fmt.Sprintf("(%s %s)", name, strings.Join(args, " ")), "Int"})
		g.vals[in] = v
		g.emit(fmt.Sprintf("(assert (> %s 0))", v.S))
	case *ssa.Lookup:
		x := g.val(in.X)
		idx := g.val(in.Index)
		if x.Sort == "String" {
			g.safe("index", reach, fmt.Sprintf("(and (<= 0 %s) (< %s (str.len %s)))", idx.S, idx.S, x.S), in.Pos())
			g.setVal(in, Term{fmt.Sprintf("(str.to_code (str.at %s %s))", x.S, idx.S), "Int"})
			return
		}
		mt := types.Unalias(in.X.Type()).Underlying().(*types.Map)
		g.lockUse(in.X, st, reach, "read", in.Pos())
		v, ok := g.mapLookup(st, mt, x, idx)
		if in.CommaOk {
			g.tuples[in] = []Term{v, ok}
		} else {
			g.setVal(in, v)
			g.assumeType(g.vals[in], in.Type(), st)
		}
	case *ssa.MapUpdate:
		m := g.val(in.Map)
		mt := types.Unalias(in.Map.Type()).Underlying().(*types.Map)
		g.safe("nilmap", reach, fmt.Sprintf("(not (= %s 0))", m.S), in.Pos())
		g.lockUse(in.Map, st, reach, "write", in.Pos())
		g.globalWriteCheck(in.Map, reach, in.Pos())
		g.mapStore(st, mt, m, g.val(in.Key), g.val(in.Value))
	case *ssa.Slice:
		g.sliceOp(in, st, reach)
	case *ssa.Call:
		g.call(in, in.Common(), st, reach, in)
	case *ssa.Defer:
		d := &deferRec{instr: in, reach: reach}
		g.defers = append(g.defers, d)
	case *ssa.RunDefers:
		g.runDefers(st, reach, false)
	case *ssa.Range:
		x := g.val(in.X)
		if mt, ok := types.Unalias(in.X.Type()).Underlying().(*types.Map); ok {
			_, _, _, ks, _ := w.mapKeys(mt)
			key := iterKey(in)
			w.heapSort[key] = fmt.Sprintf("(Array %s Bool)", ks)
			st.heap[key] = Term{fmt.Sprintf("((as const (Array %s Bool)) false)", ks), w.heapSort[key]}
			g.iters[in] = &iterInfo{isMap: true, x: x, mt: mt, key: key, keySort: ks}
			g.lockUse(in.X, st, reach, "read", in.Pos())
		} else {
			key := iterKey(in)
			w.heapSort[key] = "Int"
			st.heap[key] = Term{"0", "Int"}
			g.iters[in] = &iterInfo{isMap: false, x: x, key: key}
		}
	case *ssa.Next:
		g.next(in, st, reach)
	case *ssa.If:
		c := g.val(in.Cond)
		g.addEdge(b, b.Succs[0], fmt.Sprintf("(and %s %s)", reach, c.S), st, reach)
		g.addEdge(b, b.Succs[1], fmt.Sprintf("(and %s (not %s))", reach, c.S), st, reach)
	case *ssa.Jump:
		g.addEdge(b, b.Succs[0], reach, st, reach)
	case *ssa.Return:
		g.ret(in, st, reach)
	case *ssa.Panic:
		g.panicInstr(in, st, reach)
	default:
		g.unsupp("instruction %T", in)
	}
}

func (g *FnGen) addEdge(from, to *ssa.BasicBlock, cond string, st *State, reach string) {
	k := [2]int{from.Index, to.Index}
	if g.backEdge[k] {
		li := g.loops[to]
		// invariant preservation
		phis := map[*ssa.Phi]Term{}
		for _, in := range to.Instrs {
			phi, ok := in.(*ssa.Phi)
			if !ok {
				break
			}
			for i, p := range to.Preds {
				if p == from {
					phis[phi] = g.val(phi.Edges[i])
				}
			}
		}
		for _, c := range g.clauses("inv") {
			if c.Loop != li.ord {
				continue
			}
			env := g.envAt(st, g.entry, nil)
			env.loop = li
			env.phiOverride = phis
			env.at = to
			goal := g.evalBool(env, c)
			g.oblige(fmt.Sprintf("loop%d.pres", li.ord), c.Label, c.Props, cond, goal, c.Src, from.Instrs[len(from.Instrs)-1].Pos())
		}
		return
	}
	name := q(fmt.Sprintf("edge.%d.%d", from.Index, to.Index))
	if prev, ok := g.edges[k]; ok {
		// both branches of an If go to the same block
		name2 := q(fmt.Sprintf("edge.%d.%d.b", from.Index, to.Index))
		g.emit(fmt.Sprintf("(define-fun %s () Bool (or %s %s))", name2, prev, cond))
		g.edges[k] = name2
		return
	}
	g.emit(fmt.Sprintf("(define-fun %s () Bool %s)", name, cond))
	g.edges[k] = name
}

func (g *FnGen) binop(in *ssa.BinOp, st *State, reach string) {
	x, y := g.val(in.X), g.val(in.Y)
	xt := types.Unalias(in.X.Type()).Underlying()
	isStr := x.Sort == "String"
	var t Term
	switch in.Op {
	case token.ADD:
		if isStr {
			t = Term{fmt.Sprintf("(str.++ %s %s)", x.S, y.S), "String"}
		} else {
			t = Term{fmt.Sprintf("(+ %s %s)", x.S, y.S), "Int"}
		}
	case token.SUB:
		t = Term{fmt.Sprintf("(- %s %s)", x.S, y.S), "Int"}
	case token.MUL:
		t = Term{fmt.Sprintf("(* %s %s)", x.S, y.S), "Int"}
	case token.QUO:
		g.safe("div", reach, fmt.Sprintf("(not (= %s 0))", y.S), in.Pos())
		g.note("integer division modelled for non-negative operands")
		t = Term{fmt.Sprintf("(div %s %s)", x.S, y.S), "Int"}
	case token.REM:
		g.safe("div", reach, fmt.Sprintf("(not (= %s 0))", y.S), in.Pos())
		t = Term{fmt.Sprintf("(mod %s %s)", x.S, y.S), "Int"}
	case token.EQL, token.NEQ:
		var eq string
		if strings.HasPrefix(x.Sort, "Slice_") {
			eq = fmt.Sprintf("(= (arr_%s %s) (arr_%s %s))", x.Sort, x.S, x.Sort, y.S) // only nil comparisons are legal
			if c, ok := in.Y.(*ssa.Const); ok && c.Value == nil {
				eq = fmt.Sprintf("(= (arr_%s %s) 0)", x.Sort, x.S)
			}
		} else {
			eq = fmt.Sprintf("(= %s %s)", x.S, y.S)
		}
		if in.Op == token.NEQ {
			eq = "(not " + eq + ")"
		}
		t = Term{eq, "Bool"}
	case token.LSS, token.LEQ, token.GTR, token.GEQ:
		op := map[token.Token]string{token.LSS: "<", token.LEQ: "<=", token.GTR: ">", token.GEQ: ">="}[in.Op]
		if isStr {
			sop := map[token.Token]string{token.LSS: "str.<", token.LEQ: "str.<="}[in.Op]
			if sop == "" {
				t = Term{fmt.Sprintf("(%s %s %s)", map[token.Token]string{token.GTR: "str.<", token.GEQ: "str.<="}[in.Op], y.S, x.S), "Bool"}
			} else {
				t = Term{fmt.Sprintf("(%s %s %s)", sop, x.S, y.S), "Bool"}
			}
		} else {
			t = Term{fmt.Sprintf("(%s %s %s)", op, x.S, y.S), "Bool"}
		}
	case token.LAND:
		t = Term{fmt.Sprintf("(and %s %s)", x.S, y.S), "Bool"}
	case token.LOR:
		t = Term{fmt.Sprintf("(or %s %s)", x.S, y.S), "Bool"}
	case token.AND:
		t = Term{fmt.Sprintf("(ibitand %s %s)", x.S, y.S), "Int"}
	case token.OR:
		t = Term{fmt.Sprintf("(ibitor %s %s)", x.S, y.S), "Int"}
	case token.SHL:
		t = Term{fmt.Sprintf("(ishl %s %s)", x.S, y.S), "Int"}
	default:
		g.unsupp("binop %s", in.Op)
		return
	}
	g.setVal(in, t)
	// overflow obligations for + - * on machine integers
	if b, ok := xt.(*types.Basic); ok && b.Info()&types.IsInteger != 0 && (in.Op == token.ADD || in.Op == token.SUB || in.Op == token.MUL) {
		facts := g.typeFacts(g.vals[in], in.Type(), nil)
		if len(facts) > 0 {
			k := g.ordinal("range.arith")
			g.oblige("range.arith", fmt.Sprint(k), []string{"C05"}, reach, facts[0], "", in.Pos())
			g.assume(reach, facts[0])
		}
	}
}

func (g *FnGen) convert(in *ssa.Convert, st *State, reach string) {
	x := g.val(in.X)
	from := types.Unalias(in.X.Type()).Underlying()
	to := types.Unalias(in.Type()).Underlying()
	fb, fok := from.(*types.Basic)
	tb, tok := to.(*types.Basic)
	switch {
	case fok && tok && fb.Info()&types.IsInteger != 0 && tb.Info()&types.IsInteger != 0:
		g.setVal(in, x)
		facts := g.typeFacts(g.vals[in], in.Type(), nil)
		if len(facts) > 0 {
			k := g.ordinal("range.conv")
			g.oblige("range.conv", fmt.Sprint(k), []string{"C05"}, reach, facts[0], "", in.Pos())
			g.assume(reach, facts[0])
		}
	case fok && tok && fb.Info()&types.IsInteger != 0 && tb.Info()&types.IsString != 0:
		g.setVal(in, Term{fmt.Sprintf("(str.from_code %s)", x.S), "String"})
		g.note("string(rune) modelled as one code unit (exact for values < 0x80)")
	case fok && tok && fb.Info()&types.IsString != 0 && tb.Info()&types.IsString != 0:
		g.setVal(in, x)
	case tok && tb.Info()&types.IsString != 0:
		// []byte -> string
		g.w.decl("uf:bytes2str", fmt.Sprintf("(declare-fun bytes2str (%s) String)", x.Sort))
		g.setVal(in, Term{fmt.Sprintf("(bytes2str %s)", x.S), "String"})
		g.note("[]byte<->string conversions are uninterpreted")
	case fok && fb.Info()&types.IsString != 0:
		srt := g.w.sortOf(in.Type())
		g.w.decl("uf:str2bytes"+srt, fmt.Sprintf("(declare-fun str2bytes_%s (String) %s)", srt, srt))
		g.setVal(in, Term{fmt.Sprintf("(str2bytes_%s %s)", srt, x.S), srt})
		g.assumeType(g.vals[in], in.Type(), nil)
		g.note("[]byte<->string conversions are uninterpreted")
	default:
		g.setVal(in, x)
		g.note(fmt.Sprintf("conversion %s -> %s modelled as identity", typeName(in.X.Type()), typeName(in.Type())))
	}
}

func (g *FnGen) sliceOp(in *ssa.Slice, st *State, reach string) {
	x := g.val(in.X)
	if x.Sort == "String" {
		lo := Term{"0", "Int"}
		hi := Term{fmt.Sprintf("(str.len %s)", x.S), "Int"}
		if in.Low != nil {
			lo = g.val(in.Low)
		}
		if in.High != nil {
			hi = g.val(in.High)
		}
		g.safe("slice", reach, fmt.Sprintf("(and (<= 0 %s) (<= %s %s) (<= %s (str.len %s)))", lo.S, lo.S, hi.S, hi.S, x.S), in.Pos())
		g.setVal(in, Term{fmt.Sprintf("(str.substr %s %s (- %s %s))", x.S, lo.S, hi.S, lo.S), "String"})
		return
	}
	if _, ok := types.Unalias(in.X.Type()).Underlying().(*types.Slice); !ok {
		pa, ok2 := types.Unalias(in.X.Type()).Underlying().(*types.Pointer)
		if !ok2 {
			g.unsupp("slice of %s", in.X.Type())
			return
		}
		at, ok3 := types.Unalias(pa.Elem()).Underlying().(*types.Array)
		if !ok3 {
			g.unsupp("slice of %s", in.X.Type())
			return
		}
		ss := g.w.sliceSort(g.w.sortOf(at.Elem()))
		x = Term{fmt.Sprintf("(mk_%s %s 0 %d)", ss, x.S, at.Len()), ss}
	}
	s := x.Sort
	lo := Term{"0", "Int"}
	hi := Term{fmt.Sprintf("(len_%s %s)", s, x.S), "Int"}
	if in.Low != nil {
		lo = g.val(in.Low)
	}
	if in.High != nil {
		hi = g.val(in.High)
	}
	// capacity is not modelled: bound by length (stricter than Go, which allows up to cap)
	g.safe("slice", reach, fmt.Sprintf("(and (<= 0 %s) (<= %s %s) (<= %s (len_%s %s)))", lo.S, lo.S, hi.S, hi.S, s, x.S), in.Pos())
	g.setVal(in, Term{fmt.Sprintf("(mk_%s (arr_%s %s) (+ (off_%s %s) %s) (- %s %s))", s, s, x.S, s, x.S, lo.S, hi.S, lo.S), s})
}

// ---------------------------------------------------------------- maps

func (g *FnGen) mapLookup(st *State, mt *types.Map, m, k Term) (Term, Term) {
	dom, val, _, _, vs := g.w.mapKeys(mt)
	in := fmt.Sprintf("(and (not (= %s 0)) (select (select %s %s) %s))", m.S, g.hget(st, dom).S, m.S, k.S)
	z := g.w.zero(mt.Elem())
	v := fmt.Sprintf("(ite %s (select (select %s %s) %s) %s)", in, g.hget(st, val).S, m.S, k.S, z.S)
	return Term{v, vs}, Term{in, "Bool"}
}

func (g *FnGen) mapStore(st *State, mt *types.Map, m, k, v Term) {
	dom, val, card, _, _ := g.w.mapKeys(mt)
	d, vl, c := g.hget(st, dom), g.hget(st, val), g.hget(st, card)
	g.hset(st, card, Term{fmt.Sprintf("(store %s %s (+ (select %s %s) (ite (select (select %s %s) %s) 0 1)))", c.S, m.S, c.S, m.S, d.S, m.S, k.S), c.Sort})
	g.hset(st, dom, Term{fmt.Sprintf("(store %s %s (store (select %s %s) %s true))", d.S, m.S, d.S, m.S, k.S), d.Sort})
	g.hset(st, val, Term{fmt.Sprintf("(store %s %s (store (select %s %s) %s %s))", vl.S, m.S, vl.S, m.S, k.S, v.S), vl.Sort})
}

func (g *FnGen) mapDelete(st *State, mt *types.Map, m, k Term) {
	dom, _, card, _, _ := g.w.mapKeys(mt)
	d, c := g.hget(st, dom), g.hget(st, card)
	// delete on nil map is a no-op
	g.hset(st, card, Term{fmt.Sprintf("(ite (= %s 0) %s (store %s %s (- (select %s %s) (ite (select (select %s %s) %s) 1 0))))", m.S, c.S, c.S, m.S, c.S, m.S, d.S, m.S, k.S), c.Sort})
	g.hset(st, dom, Term{fmt.Sprintf("(ite (= %s 0) %s (store %s %s (store (select %s %s) %s false)))", m.S, d.S, d.S, m.S, d.S, m.S, k.S), d.Sort})
}

func (g *FnGen) mapLen(st *State, mt *types.Map, m Term) Term {
	_, _, card, _, _ := g.w.mapKeys(mt)
	return Term{fmt.Sprintf("(ite (= %s 0) 0 (select %s %s))", m.S, g.hget(st, card).S, m.S), "Int"}
}

// mapFacts: cardinality facts usable at a lookup site (card >= 0; card == 0 <=> empty is given per key on demand)
func (g *FnGen) mapCardFacts(st *State, mt *types.Map, m Term) {
	dom, _, card, ks, _ := g.w.mapKeys(mt)
	c := fmt.Sprintf("(select %s %s)", g.hget(st, card).S, m.S)
	g.emit(fmt.Sprintf("(assert (>= %s 0))", c))
	g.emit(fmt.Sprintf("(assert (=> (= %s 0) (forall ((k %s)) (not (select (select %s %s) k)))))", c, ks, g.hget(st, dom).S, m.S))
	g.emit(fmt.Sprintf("(assert (=> (> %s 0) (exists ((k %s)) (select (select %s %s) k))))", c, ks, g.hget(st, dom).S, m.S))
	g.note("map cardinality: len(m)==0 iff no key present (axiom of finite maps)")
}

func (g *FnGen) next(in *ssa.Next, st *State, reach string) {
	it := g.iters[in.Iter]
	if it == nil {
		g.unsupp("Next on unknown iterator")
		return
	}
	ok := g.declare(q(in.Name()+".ok"), "Bool")
	if it.isMap {
		dom, val, _, ks, vs := g.w.mapKeys(it.mt)
		k := g.declare(q(in.Name()+".k"), ks)
		g.assumeType(k, it.mt.Key(), nil)
		vis := g.hget(st, it.key)
		d := fmt.Sprintf("(select %s %s)", g.hget(st, dom).S, it.x.S)
		g.assume(reach, fmt.Sprintf("(=> %s (and (not (= %s 0)) (select %s %s) (not (select %s %s))))", ok.S, it.x.S, d, k.S, vis.S, k.S))
		g.assume(reach, fmt.Sprintf("(=> (not %s) (or (= %s 0) (forall ((kk %s)) (=> (select %s kk) (select %s kk)))))", ok.S, it.x.S, ks, d, vis.S))
		v := g.define(q(in.Name()+".v"), Term{fmt.Sprintf("(select (select %s %s) %s)", g.hget(st, val).S, it.x.S, k.S), vs})
		g.assumeType(v, it.mt.Elem(), st)
		g.hset(st, it.key, Term{fmt.Sprintf("(ite %s (store %s %s true) %s)", ok.S, vis.S, k.S, vis.S), vis.Sort})
		g.tuples[in] = []Term{ok, k, v}
		g.note("map range: each key of the map visited exactly once, in arbitrary order (Go spec, no concurrent mutation of the key set)")
		return
	}
	// string iteration
	pos := g.hget(st, it.key)
	g.w.decl("uf:runeAt", "(declare-fun runeAt (String Int) Int)\n(declare-fun runeWidth (String Int) Int)\n"+
		"(assert (forall ((s String) (i Int)) (! (and (>= (runeWidth s i) 1) (<= (runeWidth s i) 4) (=> (< (str.to_code (str.at s i)) 128) (and (= (runeWidth s i) 1) (= (runeAt s i) (str.to_code (str.at s i))))) (=> (>= (str.to_code (str.at s i)) 128) (>= (runeAt s i) 128))) :pattern ((runeWidth s i)))))")
	g.note("A5: range over string: UTF-8 decoding abstracted (ASCII bytes decode to themselves with width 1; other runes are >= 0x80, width 1..4)")
	g.assume(reach, fmt.Sprintf("(= %s (< %s (str.len %s)))", ok.S, pos.S, it.x.S))
	k := g.define(q(in.Name()+".k"), pos)
	r := g.define(q(in.Name()+".v"), Term{fmt.Sprintf("(runeAt %s %s)", it.x.S, pos.S), "Int"})
	g.hset(st, it.key, Term{fmt.Sprintf("(ite %s (+ %s (runeWidth %s %s)) %s)", ok.S, pos.S, it.x.S, pos.S, pos.S), "Int"})
	g.tuples[in] = []Term{ok, k, r}
}

// ---------------------------------------------------------------- returns / panics

func (g *FnGen) zeroGhosts(st *State, elem types.Type, ref Term, depth int) {
	w := g.w
	tn := namedName(elem)
	var gnames []string
	for name := range w.ghosts {
		gnames = append(gnames, name)
	}
	sort.Strings(gnames) // deterministic query text
	for _, name := range gnames {
		gf := w.ghosts[name]
		if !strings.HasPrefix(name, tn+".") || name[len(tn)+1:] != gf.Field {
			continue
		}
		if strings.HasPrefix(gf.Sort, "`") {
			continue
		}
		ft, err := w.resolveType(gf.Pkg, gf.Sort)
		if err != nil {
			continue
		}
		srt := w.sortOf(ft)
		if srt != "Int" && srt != "String" && srt != "Bool" {
			continue
		}
		key := "F:" + tn + "." + gf.Field
		w.heapSort[key] = fmt.Sprintf("(Array Int %s)", srt)
		g.hset(st, key, Term{fmt.Sprintf("(store %s %s %s)", g.hget(st, key).S, ref.S, w.zero(ft).S), w.heapSort[key]})
	}
	stt, ok := types.Unalias(elem).Underlying().(*types.Struct)
	if !ok || depth > 2 {
		return
	}
	for i := 0; i < stt.NumFields(); i++ {
		ft := stt.Field(i).Type()
		if _, isStruct := types.Unalias(ft).Underlying().(*types.Struct); !isStruct {
			continue
		}
		if _, isNamed := types.Unalias(ft).(*types.Named); !isNamed {
			continue
		}
		key, _ := w.fieldKey(elem, i)
		n := q("sub:" + key)
		w.decl("sub:"+key, fmt.Sprintf("(declare-fun %s (Int) Int)\n(assert (forall ((x Int)) (! (=> (> x 0) (> (%s x) 0)) :pattern ((%s x)))))", n, n, n))
		g.zeroGhosts(st, ft, Term{fmt.Sprintf("(%s %s)", n, ref.S), "Int"}, depth+1)
	}
}

func (g *FnGen) resultNames() []string {
	var out []string
	res := g.fn.Signature.Results()
	for i := 0; i < res.Len(); i++ {
		out = append(out, res.At(i).Name())
	}
	return out
}

func (g *FnGen) ret(in *ssa.Return, st *State, reach string) {
	var rs []SVal
	res := g.fn.Signature.Results()
	for i, r := range in.Results {
		rs = append(rs, SVal{g.val(r), res.At(i).Type()})
	}
	g.retSites++
	g.checkPost(st, reach, rs, in.Pos(), "ensures", "post")
	if g.fn.Name() == "init" && g.fn.Synthetic != "" {
		for _, c := range g.w.globals {
			if g.w.globalPkg[c] != g.pkg {
				continue
			}
			env := g.envAt(st, st, nil)
			g.oblige("ginit", c.Label, c.Props, reach, g.evalBool(env, c), c.Src, in.Pos())
		}
	}
}

func (g *FnGen) checkPost(st *State, reach string, rs []SVal, pos token.Pos, kind, okind string) {
	for _, c := range g.clauses(kind) {
		env := g.envAt(st, g.entry, rs)
		goal := g.evalBool(env, c)
		g.oblige(okind, c.Label, c.Props, reach, goal, c.Src, pos)
	}
	// frame obligations for modifies clauses with explicit footprints
	if kind == "ensures" {
		for _, c := range g.clauses("modifies") {
			g.frameObligation(c, st, reach, pos)
		}
		g.lockExitCheck(st, reach, pos)
	}
}

func (g *FnGen) frameObligation(c *Clause, st *State, reach string, pos token.Pos) {
	if strings.HasPrefix(c.Key, "@") {
		// only the backing array of the named slice parameter (as it was on entry) may change
		pv, ok := g.params[c.Key[1:]]
		if !ok || pv.T == nil {
			return
		}
		sl, ok := types.Unalias(pv.T).Underlying().(*types.Slice)
		if !ok {
			return
		}
		key, _ := g.w.sliceKey(sl.Elem())
		a0 := g.hget(g.entry, "alloc")
		goal := fmt.Sprintf("(forall ((r Int)) (=> (and (<= r %s) (not (= r (arr_%s %s)))) (= (select %s r) (select %s r))))", a0.S, pv.Sort, pv.S, g.hget(st, key).S, g.hget(g.entry, key).S)
		g.oblige("frame", key, []string{"C07"}, reach, goal, c.Src, pos)
		return
	}
	keys := g.w.expandKey(c.Key)
	for _, key := range keys {
		if srt, ok := g.w.heapSort[key]; !ok || !strings.HasPrefix(srt, "(Array Int ") {
			continue
		}
		if len(c.Refs) == 0 && !strings.Contains(c.Src, ":") {
			continue // whole-array footprint: nothing to prove
		}
		env := g.envAt(g.entry, g.entry, nil)
		var excl []string
		for _, r := range c.Refs {
			v := g.eval(env, r)
			excl = append(excl, fmt.Sprintf("(not (= r %s))", v.S))
		}
		a0 := g.hget(g.entry, "alloc")
		cond := fmt.Sprintf("(and (<= r %s) %s)", a0.S, strings.Join(excl, " "))
		if len(excl) == 0 {
			cond = fmt.Sprintf("(<= r %s)", a0.S)
		}
		goal := fmt.Sprintf("(forall ((r Int)) (=> %s (= (select %s r) (select %s r))))", cond, g.hget(st, key).S, g.hget(g.entry, key).S)
		g.oblige("frame", key, []string{"C07"}, reach, goal, c.Src, pos)
	}
}

func (g *FnGen) panicInstr(in *ssa.Panic, st *State, reach string) {
	// explicit panic: allowed when the contract says maypanic (documented behaviour), else an obligation
	if g.con != nil && g.con.Flags["maypanic"] {
		// C05: the panic value must not be a runtime error: statically an explicit value
		xs := st.clone()
		g.w.heapSort["panicking"], g.w.heapSort["panicval"] = "Bool", "Int"
		xs.heap["panicking"] = Term{"true", "Bool"} // an explicit panic starts panicking, exactly like a panicking callee
		xs.heap["panicval"] = g.val(in.X)
		g.xexits = append(g.xexits, xexit{in.Block().Index, reach, xs, posOf(g.w, in.Pos()), len(g.defers)})
		return
	}
	k := g.ordinal("safe.panic")
	g.oblige("safe.panic", fmt.Sprint(k), g.safeProps(), reach, "false", "", in.Pos())
}

// ---------------------------------------------------------------- hooks filled in elsewhere

func (g *FnGen) runDefers(st *State, reach string, exceptional bool) {
	if len(g.defers) > 0 {
		g.w.heapSort["panicking"], g.w.heapSort["panicval"], g.w.heapSort["recovered"] = "Bool", "Int", "Bool"
		st.heap["panicking"] = Term{"false", "Bool"}
		st.heap["recovered"] = Term{"false", "Bool"}
	}
	for i := len(g.defers) - 1; i >= 0; i-- {
		d := g.defers[i]
		if g.curInstr != nil && g.curInstr.Block() != nil {
			cb, db := g.curInstr.Block().Index, d.instr.Block().Index
			if cb != db && !g.ancestors(cb)[db] {
				continue // the defer statement is not on any path to this return
			}
		}
		cond := fmt.Sprintf("(and %s %s)", reach, d.reach)
		before := st.clone()
		g.call(d.instr, d.instr.Common(), st, cond, nil)
		// merge: effects only if the defer was registered
		for k, after := range st.heap {
			b := g.hget(before, k)
			if b.S != after.S {
				st.heap[k] = g.define(g.fresh("H:"+k), Term{fmt.Sprintf("(ite %s %s %s)", d.reach, after.S, b.S), after.Sort})
			}
		}
	}
}

// typClosed: only allocated references carry a type tag (the tag is ghost state written at allocation only)
func (g *FnGen) typClosed(st *State) {
	g.w.heapSort["typ"] = "(Array Int Int)"
	t := g.hget(st, "typ")
	a := g.allocTerm(st)
	g.emit(fmt.Sprintf("(assert (forall ((r Int)) (! (=> (not (= (select %s r) 0)) (and (< 0 r) (<= r %s))) :pattern ((select %s r)))))", t.S, a.S, t.S))
}

// mapWF: well-formedness of the map model for a (possibly havoced) heap version: cardinality is non-negative and
// zero exactly when no key is present. The invariant is maintained by construction by MakeMap/update/delete/clear.
func (g *FnGen) mapWF(st *State, cardKey string) {
	name := strings.TrimPrefix(cardKey, "Mcard:")
	domKey := "Mdom:" + name
	ds, ok := g.w.heapSort[domKey]
	if !ok {
		return
	}
	// key sort from "(Array Int (Array K Bool))"
	inner := ds[len("(Array Int (Array ") : len(ds)-len(" Bool))")]
	c, d := g.hget(st, cardKey).S, g.hget(st, domKey).S
	// keys present in a map are values of the key type
	if kt, ok := g.w.mapKeyTypes[name]; ok {
		if facts := g.typeFacts(Term{"k", inner}, kt, nil); len(facts) > 0 && inner == "Int" {
			g.emit(fmt.Sprintf("(assert (forall ((m Int) (k Int)) (! (=> (select (select %s m) k) %s) :pattern ((select (select %s m) k)))))", d, facts[0], d))
		}
	}
	g.emit(fmt.Sprintf("(assert (forall ((m Int)) (! (and (>= (select %s m) 0) (=> (= (select %s m) 0) (forall ((k %s)) (not (select (select %s m) k)))) (=> (> (select %s m) 0) (exists ((k %s)) (select (select %s m) k)))) :pattern ((select %s m)))))",
		c, c, inner, d, c, inner, d, c))
}

// heapClosed: references stored in a field are allocated (the heap is closed under dereference). Asserted for the
// entry version of a field array and for every havoced version, with the allocation counter of that state.
func (g *FnGen) heapClosed(st *State, key string) {
	ft, ok := g.w.keyTypes[key]
	if !ok || g.symHeap != "" {
		return
	}
	h := g.hget(st, key).S
	a := g.allocTerm(st).S
	switch u := types.Unalias(ft).Underlying().(type) {
	case *types.Pointer, *types.Map:
		g.emit(fmt.Sprintf("(assert (forall ((r Int)) (! (and (<= 0 (select %s r)) (<= (select %s r) %s)) :pattern ((select %s r)))))", h, h, a, h))
	case *types.Slice:
		ss := g.w.sortOf(u)
		g.emit(fmt.Sprintf("(assert (forall ((r Int)) (! (and (<= 0 (arr_%s (select %s r))) (<= (arr_%s (select %s r)) %s) (<= 0 (len_%s (select %s r))) (<= (len_%s (select %s r)) 72057594037927936) (<= 0 (off_%s (select %s r)))) :pattern ((select %s r)))))", ss, h, ss, h, a, ss, h, ss, h, ss, h, h))
	}
}

// Key identifies an obligation in the unclaimed / known-findings files. Clause obligations are keyed by their
// label; zero-annotation obligations (safe.*, range.*, lock.*, frame.global) by kind and the text of the source
// line, so that edits elsewhere in the file do not rename them.
func (o *Obligation) Key() string {
	if strings.HasPrefix(o.Kind, "safe.") || strings.HasPrefix(o.Kind, "range.") || strings.HasPrefix(o.Kind, "lock.") || strings.HasPrefix(o.Kind, "frame.global") {
		return o.Fn + "/" + o.Kind + "@" + o.SrcLine
	}
	if o.Kind == "pre" {
		// call-site preconditions: callee and label, plus the source line of the call
		lab := o.Label
		if i := strings.Index(lab, "#"); i >= 0 {
			rest := lab[i+1:]
			if j := strings.Index(rest, "."); j >= 0 {
				lab = lab[:i] + rest[j:]
			} else {
				lab = lab[:i]
			}
		}
		return o.Fn + "/pre." + lab + "@" + o.SrcLine
	}
	return o.Name
}
