package main

import (
	"sort"
	"fmt"
	"go/types"
	"strings"

	"golang.org/x/tools/go/ssa"
)

type SVal struct {
	Term
	T types.Type
}

type specError string

type Env struct {
	g           *FnGen
	vars        map[string]SVal
	bound       map[string]SVal
	st, old     *State
	pkg         string
	results     []SVal
	rnames      []string
	loop        *loopInfo
	phiOverride map[*ssa.Phi]Term
	at          *ssa.BasicBlock
	depth       int
	clause      *Clause
	captured    map[string]types.Type // names bound to cells of by-reference captured variables
}

func (g *FnGen) envAt(st, old *State, rs []SVal) *Env {
	e := &Env{g: g, vars: g.params, st: st, old: old, pkg: g.pkg, results: rs, captured: g.captured}
	if rs != nil {
		e.rnames = g.resultNames()
	}
	return e
}

// mentions reports whether a term bound in the environment contains the symbol name.
func (e *Env) mentions(name string) bool {
	for _, v := range e.bound {
		if strings.Contains(v.S, name) {
			return true
		}
	}
	if e.depth > 0 { // inside a predicate body: vars are the actuals
		for _, v := range e.vars {
			if strings.Contains(v.S, name) {
				return true
			}
		}
	}
	return false
}

func (e *Env) fail(f string, a ...interface{}) {
	loc := ""
	if e.clause != nil {
		loc = fmt.Sprintf("%s:%d: ", e.clause.File, e.clause.Line)
	}
	panic(specError(loc + fmt.Sprintf(f, a...)))
}

func (g *FnGen) evalBool(env *Env, c *Clause) string {
	env.clause = c
	v := g.eval(env, c.E)
	if v.Sort != "Bool" {
		env.fail("clause is not boolean: %s", c.Src)
	}
	return v.S
}

func (e *Env) with(st *State) *Env {
	n := *e
	n.st = st
	return &n
}

func (g *FnGen) eval(env *Env, x Expr) SVal {
	w := g.w
	switch x := x.(type) {
	case *EInt:
		s := x.V
		if strings.HasPrefix(s, "-") {
			s = "(- " + s[1:] + ")"
		}
		return SVal{Term{s, "Int"}, types.Typ[types.Int]}
	case *EStr:
		return SVal{Term{smtStr(x.V), "String"}, types.Typ[types.String]}
	case *EBool:
		if x.V {
			return SVal{Term{"true", "Bool"}, types.Typ[types.Bool]}
		}
		return SVal{Term{"false", "Bool"}, types.Typ[types.Bool]}
	case *ENil:
		return SVal{Term{"0", "Int"}, types.Typ[types.UntypedNil]}
	case *EIdent:
		return g.evalIdent(env, x.Name)
	case *EUnary:
		v := g.eval(env, x.X)
		if x.Op == "!" {
			return SVal{Term{fmt.Sprintf("(not %s)", v.S), "Bool"}, v.T}
		}
		return SVal{Term{fmt.Sprintf("(- %s)", v.S), "Int"}, v.T}
	case *EIte:
		c, a, b := g.eval(env, x.C), g.eval(env, x.A), g.eval(env, x.B)
		return SVal{Term{fmt.Sprintf("(ite %s %s %s)", c.S, a.S, b.S), a.Sort}, a.T}
	case *EBinary:
		return g.evalBinary(env, x)
	case *EQuant:
		n := *env
		n.bound = map[string]SVal{}
		for k, v := range env.bound {
			n.bound[k] = v
		}
		var decls []string
		var facts []string
		var refPats []string
		for _, p := range x.Vars {
			var srt string
			var t types.Type
			if strings.HasPrefix(p.Type, "`") {
				srt = strings.Trim(p.Type, "`")
			} else {
				var err error
				t, err = w.resolveType(env.pkg, p.Type)
				if err != nil {
					env.fail("%v", err)
				}
				srt = w.sortOf(t)
			}
			name := q("b:" + p.Name)
			// capture avoidance: a predicate argument (or an outer bound variable) may already mention a bound
			// variable of the same name
			for k := 1; env.mentions(name); k++ {
				name = q(fmt.Sprintf("b:%s'%d", p.Name, k))
			}
			n.bound[p.Name] = SVal{Term{name, srt}, t}
			decls = append(decls, fmt.Sprintf("(%s %s)", name, srt))
			if t != nil {
				if b, ok := t.Underlying().(*types.Basic); ok && b.Kind() == types.Uint8 {
					facts = append(facts, fmt.Sprintf("(and (<= 0 %s) (<= %s 255))", name, name))
				}
				// quantification over references ranges over the allocated objects of that type
				if pt, ok := types.Unalias(t).Underlying().(*types.Pointer); ok {
					if _, isStruct := pt.Elem().Underlying().(*types.Struct); isStruct {
						w.heapSort["typ"] = "(Array Int Int)"
						facts = append(facts, fmt.Sprintf("(= (select %s %s) %d)", g.hget(env.st, "typ").S, name, w.structID(pt.Elem())))
						refPats = append(refPats, fmt.Sprintf("(select %s %s)", g.hget(env.st, "typ").S, name))
					}
				}
			}
		}
		body := g.eval(&n, x.Body)
		if body.Sort != "Bool" {
			env.fail("quantifier body not boolean")
		}
		b := body.S
		if len(facts) > 0 {
			if x.Forall {
				b = fmt.Sprintf("(=> (and %s) %s)", strings.Join(facts, " "), b)
			} else {
				b = fmt.Sprintf("(and %s %s)", strings.Join(facts, " "), b)
			}
		}
		qn := "forall"
		if !x.Forall {
			qn = "exists"
		}
		if len(refPats) > 0 && x.Forall {
			return SVal{Term{fmt.Sprintf("(forall (%s) (! %s :pattern (%s)))", strings.Join(decls, " "), b, strings.Join(refPats, " ")), "Bool"}, types.Typ[types.Bool]}
		}
		return SVal{Term{fmt.Sprintf("(%s (%s) %s)", qn, strings.Join(decls, " "), b), "Bool"}, types.Typ[types.Bool]}
	case *ESel:
		return g.evalSel(env, x)
	case *EIndex:
		b := g.eval(env, x.X)
		i := g.eval(env, x.I)
		return g.indexVal(env, b, i)
	case *ESlice:
		b := g.eval(env, x.X)
		lo := Term{"0", "Int"}
		if x.Lo != nil {
			lo = g.eval(env, x.Lo).Term
		}
		if b.Sort == "String" {
			hi := fmt.Sprintf("(str.len %s)", b.S)
			if x.Hi != nil {
				hi = g.eval(env, x.Hi).S
			}
			return SVal{Term{fmt.Sprintf("(str.substr %s %s (- %s %s))", b.S, lo.S, hi, lo.S), "String"}, b.T}
		}
		if strings.HasPrefix(b.Sort, "Slice_") {
			s := b.Sort
			hi := fmt.Sprintf("(len_%s %s)", s, b.S)
			if x.Hi != nil {
				hi = g.eval(env, x.Hi).S
			}
			return SVal{Term{fmt.Sprintf("(mk_%s (arr_%s %s) (+ (off_%s %s) %s) (- %s %s))", s, s, b.S, s, b.S, lo.S, hi, lo.S), s}, b.T}
		}
		env.fail("slice expression on sort %s", b.Sort)
	case *ECall:
		return g.evalCall(env, x)
	}
	env.fail("cannot evaluate %T", x)
	return SVal{}
}

func (g *FnGen) evalIdent(env *Env, name string) SVal {
	if v, ok := env.bound[name]; ok {
		return v
	}
	if env.clause != nil && env.clause.Rename != nil && env.depth == 0 {
		if n, ok := env.clause.Rename[name]; ok {
			name = n
		}
	}
	if name == "result" {
		if len(env.results) == 0 {
			env.fail("result used but function has no result here")
		}
		return env.results[0]
	}
	if strings.HasPrefix(name, "result") && len(name) == 7 && name[6] >= '0' && name[6] <= '9' {
		i := int(name[6] - '0')
		if i >= len(env.results) {
			env.fail("%s out of range", name)
		}
		return env.results[i]
	}
	for i, rn := range env.rnames {
		if rn == name && rn != "" && i < len(env.results) {
			return env.results[i]
		}
	}
	// rangeindexK: the index of the K-th loop (inside a nested loop, plain "rangeindex" is the innermost one)
	if strings.HasPrefix(name, "rangeindex") && len(name) > 10 && env.depth == 0 {
		k := 0
		fmt.Sscanf(name[10:], "%d", &k)
		for _, li := range g.loops {
			if li.ord != k {
				continue
			}
			for _, in := range li.header.Instrs {
				phi, ok := in.(*ssa.Phi)
				if !ok {
					break
				}
				if phi.Comment == "rangeindex" {
					if t, ok := env.phiOverride[phi]; ok {
						return SVal{t, phi.Type()}
					}
					if t, ok := g.vals[phi]; ok {
						return SVal{t, phi.Type()}
					}
				}
			}
		}
		env.fail("no range index for loop %s", name[10:])
	}
	// entry_<p>: the parameter p itself, also where the code reassigns p (loop invariants see the reassigned value under p)
	if strings.HasPrefix(name, "entry_") && env.depth == 0 {
		if v, ok := g.params[name[6:]]; ok {
			return v
		}
	}
	if et, ok := env.captured[name]; ok && env.depth == 0 {
		if v, ok := env.vars[name]; ok {
			if _, isStruct := types.Unalias(et).Underlying().(*types.Struct); isStruct {
				return v
			}
			key, srt := g.w.cellKey(et)
			return SVal{Term{fmt.Sprintf("(select %s %s)", g.hget(env.st, key).S, v.S), srt}, et}
		}
	}
	if v, ok := env.vars[name]; ok && (env.at == nil || env.depth > 0) {
		return v
	}
	// locals (loop invariants): a reassigned parameter is a phi carrying the parameter's name
	if env.at != nil && env.depth == 0 {
		// the phi carrying this name in the closest dominating block (the loop header itself first)
		var bestPhi *ssa.Phi
		for _, blk := range g.fn.Blocks {
			if blk != env.at && !blk.Dominates(env.at) {
				continue
			}
			for _, in := range blk.Instrs {
				phi, ok := in.(*ssa.Phi)
				if !ok {
					break
				}
				if phi.Comment != name && !(name == "rangeint" && phi.Comment == "rangeint.iter") {
					continue
				}
				if _, ov := env.phiOverride[phi]; !ov {
					if _, have := g.vals[phi]; !have {
						continue
					}
				}
				if bestPhi == nil || bestPhi.Block().Dominates(blk) {
					bestPhi = phi
				}
			}
		}
		if bestPhi != nil {
			if t, ok := env.phiOverride[bestPhi]; ok {
				return SVal{t, bestPhi.Type()}
			}
			return SVal{g.vals[bestPhi], bestPhi.Type()}
		}
		var best *debugRef
		for i := range g.debug[name] {
			d := &g.debug[name][i]
			if _, isPhi := d.v.(*ssa.Phi); isPhi && d.v.(*ssa.Phi).Block() == env.at {
				continue
			}
			if d.blk != env.at && d.blk.Dominates(env.at) {
				if best == nil || best.blk.Dominates(d.blk) {
					best = d
				}
			}
		}
		if best != nil {
			if best.isAddr {
				p := g.ptr(best.v, env.st)
				return SVal{g.load(p, env.st, "", 0), p.typ}
			}
			if t, ok := g.vals[best.v]; ok {
				return SVal{t, best.v.Type()}
			}
			if c, ok := best.v.(*ssa.Const); ok {
				return SVal{g.constTerm(c), c.Type()}
			}
		}
	}
	if v, ok := env.vars[name]; ok {
		return v
	}
	// package-level variables
	if sp := g.w.spkgs[env.pkg]; sp != nil {
		if gl, ok := sp.Members[name].(*ssa.Global); ok {
			key, srt := g.w.globalKey(gl)
			return SVal{Term{g.hget(env.st, key).S, srt}, gl.Type().(*types.Pointer).Elem()}
		}
		if c, ok := sp.Members[name].(*ssa.NamedConst); ok {
			return SVal{g.constTerm(c.Value), c.Type()}
		}
	}
	env.fail("unknown identifier %q", name)
	return SVal{}
}

func (g *FnGen) evalSel(env *Env, x *ESel) SVal {
	w := g.w
	// package-qualified constant/variable: pkg.Name
	if id, ok := x.X.(*EIdent); ok {
		if _, isVar := env.vars[id.Name]; !isVar {
			if _, isB := env.bound[id.Name]; !isB {
				if sp, ok := w.spkgs[id.Name]; ok {
					switch m := sp.Members[x.F].(type) {
					case *ssa.Global:
						key, srt := w.globalKey(m)
						return SVal{Term{g.hget(env.st, key).S, srt}, m.Type().(*types.Pointer).Elem()}
					case *ssa.NamedConst:
						return SVal{g.constTerm(m.Value), m.Type()}
					}
				}
				if tp, ok := w.tpkgs[id.Name]; ok {
					if c, ok := tp.Scope().Lookup(x.F).(*types.Const); ok {
						return SVal{g.constTerm(ssa.NewConst(c.Val(), c.Type())), c.Type()}
					}
				}
			}
		}
	}
	b := g.eval(env, x.X)
	if b.T == nil {
		env.fail("field %s of untyped value", x.F)
	}
	t := types.Unalias(b.T)
	isPtr := false
	if p, ok := t.Underlying().(*types.Pointer); ok {
		t = types.Unalias(p.Elem())
		isPtr = true
	}
	st, ok := t.Underlying().(*types.Struct)
	if !ok {
		if gf, ok := w.ghosts[namedName(t)+"."+x.F]; ok {
			return g.ghostSel(env, gf, namedName(t), x.F, b)
		}
		env.fail("field %s of non-struct %s", x.F, typeName(b.T))
	}
	for i := 0; i < st.NumFields(); i++ {
		if st.Field(i).Name() == x.F {
			if isPtr {
				key, srt := w.fieldKey(t, i)
				if _, isStruct := types.Unalias(st.Field(i).Type()).Underlying().(*types.Struct); isStruct {
					// a struct-valued field reached through a pointer denotes the embedded object (as FieldAddr does)
					n := q("sub:" + key)
					w.decl("sub:"+key, fmt.Sprintf("(declare-fun %s (Int) Int)\n(assert (forall ((x Int)) (! (=> (> x 0) (> (%s x) 0)) :pattern ((%s x)))))", n, n, n))
					return SVal{Term{fmt.Sprintf("(%s %s)", n, b.S), "Int"}, types.NewPointer(st.Field(i).Type())}
				}
				return SVal{Term{fmt.Sprintf("(select %s %s)", g.hget(env.st, key).S, b.S), srt}, st.Field(i).Type()}
			}
			return SVal{Term{fmt.Sprintf("(%s %s)", w.structAcc(t, i), b.S), w.sortOf(st.Field(i).Type())}, st.Field(i).Type()}
		}
	}
	// ghost field
	if gf, ok := w.ghosts[namedName(t)+"."+x.F]; ok && isPtr {
		return g.ghostSel(env, gf, namedName(t), x.F, b)
	}
	env.fail("no field %s in %s", x.F, typeName(t))
	return SVal{}
}

func (g *FnGen) indexVal(env *Env, b, i SVal) SVal {
	w := g.w
	switch {
	case b.Sort == "String":
		return SVal{Term{fmt.Sprintf("(str.to_code (str.at %s %s))", b.S, i.S), "Int"}, types.Typ[types.Uint8]}
	case strings.HasPrefix(b.Sort, "Slice_"):
		sl, ok := types.Unalias(b.T).Underlying().(*types.Slice)
		if !ok {
			env.fail("index of slice-sorted value without slice type")
		}
		key, es := w.sliceKey(sl.Elem())
		s := b.Sort
		return SVal{Term{w.elemTerm(s, es, g.hget(env.st, key).S, b.S, i.S), es}, sl.Elem()}
	case strings.HasPrefix(b.Sort, "(Array "):
		// logical array
		parts := splitSorts(b.Sort[len("(Array ") : len(b.Sort)-1])
		return SVal{Term{fmt.Sprintf("(select %s %s)", b.S, i.S), parts[1]}, nil}
	}
	if b.T != nil {
		if mt, ok := types.Unalias(b.T).Underlying().(*types.Map); ok {
			v, _ := g.mapLookup(env.st, mt, b.Term, i.Term)
			return SVal{v, mt.Elem()}
		}
	}
	env.fail("cannot index sort %s", b.Sort)
	return SVal{}
}

func splitSorts(s string) []string {
	var out []string
	depth, start := 0, 0
	for i := 0; i < len(s); i++ {
		switch s[i] {
		case '(':
			depth++
		case ')':
			depth--
		case ' ':
			if depth == 0 {
				if i > start {
					out = append(out, s[start:i])
				}
				start = i + 1
			}
		}
	}
	if start < len(s) {
		out = append(out, s[start:])
	}
	return out
}

func (g *FnGen) evalBinary(env *Env, x *EBinary) SVal {
	a := g.eval(env, x.X)
	b := g.eval(env, x.Y)
	boolT := types.Typ[types.Bool]
	switch x.Op {
	case "&&":
		return SVal{Term{fmt.Sprintf("(and %s %s)", a.S, b.S), "Bool"}, boolT}
	case "||":
		return SVal{Term{fmt.Sprintf("(or %s %s)", a.S, b.S), "Bool"}, boolT}
	case "==>":
		return SVal{Term{fmt.Sprintf("(=> %s %s)", a.S, b.S), "Bool"}, boolT}
	case "<==>":
		return SVal{Term{fmt.Sprintf("(= %s %s)", a.S, b.S), "Bool"}, boolT}
	case "==", "!=":
		var eq string
		_, an := x.X.(*ENil)
		_, bn := x.Y.(*ENil)
		switch {
		case strings.HasPrefix(a.Sort, "Slice_") && bn:
			eq = fmt.Sprintf("(= (arr_%s %s) 0)", a.Sort, a.S)
		case strings.HasPrefix(b.Sort, "Slice_") && an:
			eq = fmt.Sprintf("(= (arr_%s %s) 0)", b.Sort, b.S)
		default:
			if a.Sort != b.Sort {
				env.fail("comparison of sorts %s and %s", a.Sort, b.Sort)
			}
			if a.Sort == "String" {
				eq = fmt.Sprintf("(streq %s %s)", a.S, b.S)
			} else {
				eq = fmt.Sprintf("(= %s %s)", a.S, b.S)
			}
		}
		if x.Op == "!=" {
			eq = "(not " + eq + ")"
		}
		return SVal{Term{eq, "Bool"}, boolT}
	case "<", "<=", ">", ">=":
		return SVal{Term{fmt.Sprintf("(%s %s %s)", x.Op, a.S, b.S), "Bool"}, boolT}
	case "+", "++":
		if a.Sort == "String" {
			return SVal{Term{fmt.Sprintf("(str.++ %s %s)", a.S, b.S), "String"}, a.T}
		}
		return SVal{Term{fmt.Sprintf("(+ %s %s)", a.S, b.S), "Int"}, a.T}
	case "-":
		return SVal{Term{fmt.Sprintf("(- %s %s)", a.S, b.S), "Int"}, a.T}
	case "*":
		return SVal{Term{fmt.Sprintf("(* %s %s)", a.S, b.S), "Int"}, a.T}
	case "/":
		return SVal{Term{fmt.Sprintf("(div %s %s)", a.S, b.S), "Int"}, a.T}
	case "%":
		return SVal{Term{fmt.Sprintf("(mod %s %s)", a.S, b.S), "Int"}, a.T}
	}
	env.fail("unknown operator %s", x.Op)
	return SVal{}
}

func (g *FnGen) evalCall(env *Env, x *ECall) SVal {
	w := g.w
	boolT := types.Typ[types.Bool]
	intT := types.Typ[types.Int]
	arg := func(i int) SVal {
		if i >= len(x.Args) {
			env.fail("%s: missing argument %d", x.Fn, i)
		}
		return g.eval(env, x.Args[i])
	}
	switch x.Fn {
	case "old":
		return g.eval(env.with(env.old), x.Args[0])
	case "len":
		a := arg(0)
		switch {
		case a.Sort == "String":
			return SVal{Term{fmt.Sprintf("(str.len %s)", a.S), "Int"}, intT}
		case strings.HasPrefix(a.Sort, "Slice_"):
			return SVal{Term{fmt.Sprintf("(len_%s %s)", a.Sort, a.S), "Int"}, intT}
		}
		if a.T != nil {
			if mt, ok := types.Unalias(a.T).Underlying().(*types.Map); ok {
				return SVal{g.mapLen(env.st, mt, a.Term), intT}
			}
		}
		env.fail("len of sort %s", a.Sort)
	case "in":
		k, m := arg(0), arg(1)
		if strings.HasPrefix(m.Sort, "(Array ") {
			return SVal{Term{fmt.Sprintf("(select %s %s)", m.S, k.S), "Bool"}, boolT}
		}
		mt, ok := types.Unalias(m.T).Underlying().(*types.Map)
		if !ok {
			env.fail("in: not a map")
		}
		_, okT := g.mapLookup(env.st, mt, m.Term, k.Term)
		return SVal{okT, boolT}
	case "dom", "vals":
		m := arg(0)
		mt, ok := types.Unalias(m.T).Underlying().(*types.Map)
		if !ok {
			env.fail("%s: not a map", x.Fn)
		}
		dom, val, _, ks, vs := w.mapKeys(mt)
		if x.Fn == "dom" {
			return SVal{Term{fmt.Sprintf("(ite (= %s 0) ((as const (Array %s Bool)) false) (select %s %s))", m.S, ks, g.hget(env.st, dom).S, m.S), fmt.Sprintf("(Array %s Bool)", ks)}, nil}
		}
		return SVal{Term{fmt.Sprintf("(select %s %s)", g.hget(env.st, val).S, m.S), fmt.Sprintf("(Array %s %s)", ks, vs)}, nil}
	case "emptyset":
		// emptyset(dom(m)) style not needed; emptyset("String")
		s := x.Args[0].(*EStr).V
		return SVal{Term{fmt.Sprintf("((as const (Array %s Bool)) false)", s), fmt.Sprintf("(Array %s Bool)", s)}, nil}
	case "store":
		a, k, v := arg(0), arg(1), arg(2)
		return SVal{Term{fmt.Sprintf("(store %s %s %s)", a.S, k.S, v.S), a.Sort}, nil}
	case "select":
		a, k := arg(0), arg(1)
		return g.indexVal(env, a, k)
	case "hasPrefix":
		s, p := arg(0), arg(1)
		return SVal{Term{fmt.Sprintf("(str.prefixof %s %s)", p.S, s.S), "Bool"}, boolT}
	case "hasSuffix":
		s, p := arg(0), arg(1)
		return SVal{Term{fmt.Sprintf("(str.suffixof %s %s)", p.S, s.S), "Bool"}, boolT}
	case "contains":
		s, p := arg(0), arg(1)
		return SVal{Term{fmt.Sprintf("(str.contains %s %s)", s.S, p.S), "Bool"}, boolT}
	case "indexOf":
		s, p := arg(0), arg(1)
		from := "0"
		if len(x.Args) > 2 {
			from = arg(2).S
		}
		return SVal{Term{fmt.Sprintf("(str.indexof %s %s %s)", s.S, p.S, from), "Int"}, intT}
	case "chr":
		return SVal{Term{fmt.Sprintf("(str.from_code %s)", arg(0).S), "String"}, types.Typ[types.String]}
	case "int", "byte", "int16":
		a := arg(0)
		return SVal{a.Term, intT}
	case "fresh":
		a := arg(0)
		ref := a.S
		if strings.HasPrefix(a.Sort, "Slice_") {
			ref = fmt.Sprintf("(arr_%s %s)", a.Sort, a.S)
		}
		return SVal{Term{fmt.Sprintf("(> %s %s)", ref, g.allocTerm(env.old).S), "Bool"}, boolT}
	case "allocated":
		a := arg(0)
		// for references to named structs: "is an allocated object of that type" through the ghost type tag,
		// which does not change when unrelated objects are allocated
		if a.T != nil {
			if pt, ok := types.Unalias(a.T).Underlying().(*types.Pointer); ok {
				if _, isNamed := types.Unalias(pt.Elem()).(*types.Named); isNamed {
					if _, isStruct := pt.Elem().Underlying().(*types.Struct); isStruct {
						w.heapSort["typ"] = "(Array Int Int)"
						return SVal{Term{fmt.Sprintf("(= (select %s %s) %d)", g.hget(env.st, "typ").S, a.S, w.structID(pt.Elem())), "Bool"}, boolT}
					}
				}
			}
		}
		if strings.HasPrefix(a.Sort, "Slice_") {
			// a slice: its backing array is an existing object (or the slice is nil)
			return SVal{Term{fmt.Sprintf("(and (<= 0 (arr_%s %s)) (<= (arr_%s %s) %s))", a.Sort, a.S, a.Sort, a.S, g.allocTerm(env.st).S), "Bool"}, boolT}
		}
		return SVal{Term{fmt.Sprintf("(and (< 0 %s) (<= %s %s))", a.S, a.S, g.allocTerm(env.st).S), "Bool"}, boolT}
	case "visited", "iterpos":
		k := 0
		fmt.Sscanf(x.Args[0].(*EInt).V, "%d", &k)
		for _, li := range g.loops {
			if li.ord != k {
				continue
			}
			for b := range li.body {
				for _, in := range b.Instrs {
					if r, ok := in.(*ssa.Range); ok {
						key := iterKey(r)
						return SVal{g.hget(env.st, key), nil}
					}
				}
			}
			// the Range instruction sits before the loop: find Next in the header
			for _, in := range li.header.Instrs {
				if nx, ok := in.(*ssa.Next); ok {
					key := iterKey(nx.Iter.(*ssa.Range))
					if _, ok := w.heapSort[key]; ok {
						return SVal{g.hget(env.st, key), nil}
					}
				}
			}
		}
		env.fail("no iterator for loop %d", k)
	case "unchangedMaps", "unchanged":
		// unchangedMaps("map[K]V", e1, ...): every map object of that type other than e1.. (and allocated before the call) is as in the old state
		ks := w.expandKey(x.Args[0].(*EStr).V)
		var excl []string
		for i := 1; i < len(x.Args); i++ {
			excl = append(excl, fmt.Sprintf("(not (= r! %s))", g.eval(env.with(env.old), x.Args[i]).S))
		}
		cond := fmt.Sprintf("(and (<= r! %s) %s)", g.allocTerm(env.old).S, strings.Join(excl, " "))
		var eqs []string
		for _, k := range ks {
			if _, ok := w.heapSort[k]; ok {
				eqs = append(eqs, fmt.Sprintf("(= (select %s r!) (select %s r!))", g.hget(env.st, k).S, g.hget(env.old, k).S))
			}
		}
		return SVal{Term{fmt.Sprintf("(forall ((r! Int)) (=> %s (and %s true)))", cond, strings.Join(eqs, " ")), "Bool"}, boolT}
	case "str2bytes":
		// the (uninterpreted) conversion []byte(s), the same symbol the generator uses for the Go conversion
		a := arg(0)
		bt := types.NewSlice(types.Typ[types.Uint8])
		srt := w.sortOf(bt)
		w.decl("uf:str2bytes"+srt, fmt.Sprintf("(declare-fun str2bytes_%s (String) %s)", srt, srt))
		return SVal{Term{fmt.Sprintf("(str2bytes_%s %s)", srt, a.S), srt}, bt}
	case "bytes2str":
		a := arg(0)
		w.decl("uf:bytes2str", fmt.Sprintf("(declare-fun bytes2str (%s) String)", a.Sort))
		return SVal{Term{fmt.Sprintf("(bytes2str %s)", a.S), "String"}, types.Typ[types.String]}
	case "bitand":
		a, b := arg(0), arg(1)
		return SVal{Term{fmt.Sprintf("(ibitand %s %s)", a.S, b.S), "Int"}, intT}
	case "arr":
		a := arg(0)
		if !strings.HasPrefix(a.Sort, "Slice_") {
			env.fail("arr of non-slice")
		}
		return SVal{Term{fmt.Sprintf("(arr_%s %s)", a.Sort, a.S), "Int"}, nil}
	case "funcval":
		key := x.Args[0].(*EStr).V
		f := w.funcs[key]
		if f == nil {
			env.fail("funcval: unknown function %s", key)
		}
		return SVal{g.funcValue(f), f.Type()}
	case "ncalls":
		ck := "Calls:" + x.Args[0].(*EStr).V
		w.heapSort[ck] = "Int"
		return SVal{g.hget(env.st, ck), intT}
	case "lastarg":
		i := 0
		fmt.Sscanf(x.Args[1].(*EInt).V, "%d", &i)
		ak := fmt.Sprintf("CallArg%d:%s", i, x.Args[0].(*EStr).V)
		if _, ok := w.heapSort[ak]; !ok {
			w.heapSort[ak] = "Int"
		}
		return SVal{g.hget(env.st, ak), nil}
	case "recovered":
		w.heapSort["recovered"] = "Bool"
		return SVal{g.hget(env.st, "recovered"), boolT}
	case "deref":
		a := arg(0)
		pt, ok := types.Unalias(a.T).Underlying().(*types.Pointer)
		if !ok {
			env.fail("deref of non-pointer")
		}
		key, srt := w.cellKey(pt.Elem())
		return SVal{Term{fmt.Sprintf("(select %s %s)", g.hget(env.st, key).S, a.S), srt}, pt.Elem()}
	case "panicking":
		w.heapSort["panicking"], w.heapSort["panicval"] = "Bool", "Int"
		return SVal{g.hget(env.st, "panicking"), boolT}
	case "panicval":
		w.heapSort["panicking"], w.heapSort["panicval"] = "Bool", "Int"
		return SVal{g.hget(env.st, "panicval"), nil}
	case "heldR", "heldW", "theldR", "theldW":
		a := arg(0)
		mode := "read"
		if strings.HasSuffix(x.Fn, "W") {
			mode = "write"
		}
		return SVal{Term{g.heldTerm(env.st, a.Term, strings.HasPrefix(x.Fn, "t"), mode), "Bool"}, boolT}
	case "typeis":
		a := arg(0)
		t, err := w.resolveType(env.pkg, x.Args[1].(*EStr).V)
		if err != nil {
			env.fail("%v", err)
		}
		return SVal{Term{fmt.Sprintf("(and (not (= %s 0)) (= (typeof %s) %d))", a.S, a.S, w.typeID(t)), "Bool"}, boolT}
	case "unbox":
		a := arg(0)
		t, err := w.resolveType(env.pkg, x.Args[1].(*EStr).V)
		if err != nil {
			env.fail("%v", err)
		}
		return SVal{w.unbox(t, a.Term), t}
	case "box":
		a := arg(0)
		if a.T == nil {
			env.fail("box of untyped value")
		}
		return SVal{w.box(a.T, a.Term), nil}
	case "pure0", "pure1", "pure2":
		key := x.Args[0].(*EStr).V
		idx := int(x.Fn[4] - '0')
		var as, ss []string
		for i := 1; i < len(x.Args); i++ {
			a := arg(i)
			as = append(as, a.S)
			ss = append(ss, a.Sort)
		}
		f := w.findFunc(key)
		var rt types.Type
		if f == nil {
			con := w.contracts[key]
			if con == nil || idx >= len(con.Returns) {
				env.fail("pure: unknown function %s", key)
			}
			var err error
			rt, err = w.resolveType(env.pkg, con.Returns[idx])
			if err != nil {
				env.fail("%v", err)
			}
		} else {
			rt = f.Signature.Results().At(idx).Type()
		}
		srt := w.sortOf(rt)
		name := q(fmt.Sprintf("pure:%s:%d", key, idx))
		w.decl(name+strings.Join(ss, ","), fmt.Sprintf("(declare-fun %s (%s) %s)", name, strings.Join(ss, " "), srt))
		return SVal{Term{fmt.Sprintf("(%s %s)", name, strings.Join(as, " ")), srt}, rt}
	case "capture":
		// capture("pkg.Fn$1", i, closure): the i-th variable captured by a closure value made from that function literal
		// (a closure value determines its bindings; for a by-reference capture the variable's current value)
		key := x.Args[0].(*EStr).V
		idx := -1
		clo := arg(2)
		f := w.findFunc(key)
		if f != nil {
			switch a := x.Args[1].(type) {
			case *EInt:
				fmt.Sscanf(a.V, "%d", &idx)
			case *EStr: // by name
				for i, fv := range f.FreeVars {
					if fv.Name() == a.V {
						idx = i
					}
				}
			}
		}
		if f == nil || idx < 0 || idx >= len(f.FreeVars) {
			env.fail("capture: no captured variable %d in %s", idx, key)
		}
		k := w.funcKey(f)
		g.note("closure values determine their bindings: capture(fn, i, f) reads the i-th captured variable back from a closure value (inverse of closure creation)")
		var sorts, bvs, names []string
		for i, fv := range f.FreeVars {
			srt := w.sortOf(fv.Type())
			sorts = append(sorts, srt)
			bvs = append(bvs, fmt.Sprintf("(cap%d %s)", i, srt))
			names = append(names, fmt.Sprintf("cap%d", i))
		}
		cname := q("clo:" + k)
		w.decl("clo:"+k, fmt.Sprintf("(declare-fun %s (%s) Int)", cname, strings.Join(sorts, " ")))
		iname := q(fmt.Sprintf("cloinv:%s:%d", k, idx))
		app := fmt.Sprintf("(%s %s)", cname, strings.Join(names, " "))
		w.decl("cloinv:"+k+fmt.Sprint(idx), fmt.Sprintf("(declare-fun %s (Int) %s)\n(assert (forall (%s) (! (= (%s %s) cap%d) :pattern (%s))))",
			iname, sorts[idx], strings.Join(bvs, " "), iname, app, idx, app))
		fvt := f.FreeVars[idx].Type()
		v := Term{fmt.Sprintf("(%s %s)", iname, clo.S), sorts[idx]}
		if pt, ok := fvt.(*types.Pointer); ok {
			if _, isStruct := types.Unalias(pt.Elem()).Underlying().(*types.Struct); !isStruct {
				ck, srt := w.cellKey(pt.Elem())
				return SVal{Term{fmt.Sprintf("(select %s %s)", g.hget(env.st, ck).S, v.S), srt}, pt.Elem()}
			}
		}
		return SVal{v, fvt}
	case "callresult", "called":
		key := x.Args[0].(*EStr).V
		k := 1
		fmt.Sscanf(x.Args[1].(*EInt).V, "%d", &k)
		id := fmt.Sprintf("%s#%d", key, k)
		rs, ok := g.callRes[id]
		if x.Fn == "called" {
			if !ok || !g.tagInScope(g.callTag[id]) {
				return SVal{Term{"false", "Bool"}, boolT}
			}
			return SVal{Term{g.callReach[id], "Bool"}, boolT}
		}
		i := 0
		if len(x.Args) > 2 {
			fmt.Sscanf(x.Args[2].(*EInt).V, "%d", &i)
		}
		var rt types.Type
		if f := w.findFunc(key); f != nil && i < f.Signature.Results().Len() {
			rt = f.Signature.Results().At(i).Type()
		}
		if !ok {
			// not generated (yet): the call is in a block that is not on the way to this point
			if rt == nil {
				env.fail("callresult: no call %s on the way to this point", id)
			}
			rs = make([]Term, i+1)
			rs[i] = Term{"", w.sortOf(rt)}
		}
		if i >= len(rs) {
			env.fail("callresult: %s has %d results", id, len(rs))
		}
		if !ok || !g.tagInScope(g.callTag[id]) {
			// the call is not on the way to this point: its result is an arbitrary value here
			nm := q(fmt.Sprintf("nocall:%s:%d", id, i))
			if g.nocall == nil {
				g.nocall = map[string]bool{}
			}
			if !g.nocall[nm] {
				g.nocall[nm] = true
				saved := g.curTag
				g.curTag = -1
				g.declare(nm, rs[i].Sort)
				g.curTag = saved
			}
			return SVal{Term{nm, rs[i].Sort}, rt}
		}
		return SVal{rs[i], rt}
	case "seqeq":
		// extensional equality of two slices in the current state
		a, b := arg(0), arg(1)
		ai := g.indexVal(env, a, SVal{Term{"i!", "Int"}, intT})
		bi := g.indexVal(env, b, SVal{Term{"i!", "Int"}, intT})
		s := a.Sort
		return SVal{Term{fmt.Sprintf("(and (= (len_%s %s) (len_%s %s)) (forall ((i! Int)) (=> (and (<= 0 i!) (< i! (len_%s %s))) (= %s %s))))", s, a.S, s, b.S, s, a.S, ai.S, bi.S), "Bool"}, boolT}
	}
	if p, ok := w.preds[x.Fn]; ok {
		if env.depth > 20 {
			env.fail("pred recursion too deep: %s", x.Fn)
		}
		if len(p.Params) != len(x.Args) {
			env.fail("pred %s: wrong number of arguments", x.Fn)
		}
		n := *env
		n.depth++
		n.vars = map[string]SVal{}
		n.pkg = p.Pkg
		n.at = nil
		n.results = nil
		n.rnames = nil
		for i, pp := range p.Params {
			v := arg(i)
			if v.T == nil || isNilT(v.T) {
				if t, err := w.resolveType(p.Pkg, pp.Type); err == nil {
					v.T = t
				}
			} else if t, err := w.resolveType(p.Pkg, pp.Type); err == nil {
				// prefer declared type when the argument's type is an interface/any placeholder
				if _, isIface := types.Unalias(v.T).Underlying().(*types.Interface); isIface {
					v.T = t
				}
			}
			n.vars[pp.Name] = v
		}
		if p.Opaque {
			od := w.opaqueDef(g, p)
			var as []string
			for _, pp := range p.Params {
				as = append(as, n.vars[pp.Name].S)
			}
			for _, k := range od.keys {
				as = append(as, g.hget(env.st, k).S)
			}
			app := od.name
			if len(as) > 0 {
				app = fmt.Sprintf("(%s %s)", od.name, strings.Join(as, " "))
			}
			return SVal{Term{app, od.sort}, od.typ}
		}
		return g.eval(&n, p.Body)
	}
	if u, ok := w.ufs[x.Fn]; ok {
		var as, ss []string
		for i := range x.Args {
			a := arg(i)
			as = append(as, a.S)
			ss = append(ss, a.Sort)
		}
		var rt types.Type
		rs := u.Ret
		if strings.HasPrefix(rs, "`") {
			rs = strings.Trim(rs, "`")
		} else {
			t, err := w.resolveType(u.Pkg, u.Ret)
			if err != nil {
				env.fail("%v", err)
			}
			rt = t
			rs = w.sortOf(t)
		}
		name := q("uf:" + u.Name)
		if len(as) == 0 {
			w.decl("uf:"+u.Name, fmt.Sprintf("(declare-const %s %s)", name, rs))
			return SVal{Term{name, rs}, rt}
		}
		w.decl("uf:"+u.Name, fmt.Sprintf("(declare-fun %s (%s) %s)", name, strings.Join(ss, " "), rs))
		return SVal{Term{fmt.Sprintf("(%s %s)", name, strings.Join(as, " ")), rs}, rt}
	}
	env.fail("unknown function %s", x.Fn)
	return SVal{}
}

func isNilT(t types.Type) bool {
	b, ok := t.(*types.Basic)
	return ok && b.Kind() == types.UntypedNil
}

func (g *FnGen) ghostSel(env *Env, gf *GhostField, tname, field string, b SVal) SVal {
	w := g.w
	key := "F:" + tname + "." + field
	var ft types.Type
	srt := gf.Sort
	if !strings.HasPrefix(srt, "`") {
		var err error
		ft, err = w.resolveType(gf.Pkg, gf.Sort)
		if err != nil {
			env.fail("%v", err)
		}
		srt = w.sortOf(ft)
	} else {
		srt = strings.Trim(srt, "`")
	}
	w.heapSort[key] = fmt.Sprintf("(Array Int %s)", srt)
	return SVal{Term{fmt.Sprintf("(select %s %s)", g.hget(env.st, key).S, b.S), srt}, ft}
}

// ---------------------------------------------------------------- opaque predicates as spec functions

type opaqueDef struct {
	name string
	keys []string // heap components the body reads (transitively)
	sort string
	typ  types.Type
	// definitional axiom
	decls, args, sorts []string
	body               string
}

// opaqueDef declares, once, an uninterpreted symbol for the predicate over (parameters, heap components read)
// together with its definitional axiom, triggered on applications of the symbol. Unfolding is then on demand.
func (w *World) opaqueDef(g *FnGen, p *Pred) *opaqueDef {
	if od, ok := w.opaques[p.Name]; ok {
		if od == nil {
			panic(specError("recursive opaque predicate " + p.Name + " needs a declared result type: pred f(...) T = ..."))
		}
		return od
	}
	if p.Ret != "" {
		// recursive definition: the set of heap components read is found by iteration (the provisional symbol of
		// round n reads the components found in round n-1) until it is stable
		rt, err := w.resolveType(p.Pkg, p.Ret)
		if err != nil {
			panic(specError(err.Error()))
		}
		var keys []string
		for round := 0; round < 6; round++ {
			w.opaques[p.Name] = &opaqueDef{name: q("opq:" + p.Name), keys: keys, sort: w.sortOf(rt), typ: rt}
			od := w.opaqueDefBody(g, p)
			if len(od.keys) == len(keys) {
				w.opaques[p.Name] = od
				w.declOpaque(p, od)
				return od
			}
			keys = od.keys
		}
		panic(specError("heap footprint of recursive predicate " + p.Name + " does not stabilise"))
	}
	w.opaques[p.Name] = nil
	defer func() {
		if w.opaques[p.Name] == nil {
			delete(w.opaques, p.Name)
		}
	}()
	od := w.opaqueDefBody(g, p)
	w.declOpaque(p, od)
	w.opaques[p.Name] = od
	return od
}

func (w *World) declOpaque(p *Pred, od *opaqueDef) {
	if len(od.args) == 0 {
		w.decl("opq:"+p.Name, fmt.Sprintf("(declare-const %s %s)\n(assert (= %s %s))", od.name, od.sort, od.name, od.body))
		return
	}
	app := fmt.Sprintf("(%s %s)", od.name, strings.Join(od.args, " "))
	w.decl("opq:"+p.Name, fmt.Sprintf("(declare-fun %s (%s) %s)\n(assert (forall (%s) (! (= %s %s) :pattern (%s))))",
		od.name, strings.Join(od.sorts, " "), od.sort, strings.Join(od.decls, " "), app, od.body, app))
}

func (w *World) opaqueDefBody(g *FnGen, p *Pred) *opaqueDef {
	// evaluate the body over bound parameters and bound heap arrays
	sub := &FnGen{w: w, fn: g.fn, key: g.key, pkg: p.Pkg, vals: map[ssa.Value]Term{}, initHeap: map[string]Term{}, counters: map[string]int{},
		assumptions: g.assumptions, params: map[string]SVal{}, symHeap: "hb:" + p.Name + ":"}
	env := &Env{g: sub, vars: map[string]SVal{}, st: &State{heap: map[string]Term{}}, pkg: p.Pkg}
	env.old = env.st
	var decls, args, sorts []string
	for i, pp := range p.Params {
		var srt string
		var t types.Type
		if strings.HasPrefix(pp.Type, "`") {
			srt = strings.Trim(pp.Type, "`")
		} else {
			var err error
			t, err = w.resolveType(p.Pkg, pp.Type)
			if err != nil {
				panic(specError(err.Error()))
			}
			srt = w.sortOf(t)
		}
		name := q(fmt.Sprintf("pa:%s:%d", p.Name, i))
		env.vars[pp.Name] = SVal{Term{name, srt}, t}
		decls = append(decls, fmt.Sprintf("(%s %s)", name, srt))
		args = append(args, name)
		sorts = append(sorts, srt)
	}
	body := sub.eval(env, p.Body)
	if len(sub.lines) > 0 {
		panic(specError("opaque predicate " + p.Name + " needs side assertions; not supported"))
	}
	sort.Strings(sub.symKeys)
	od := &opaqueDef{name: q("opq:" + p.Name), keys: sub.symKeys, sort: body.Sort, typ: body.T}
	for _, k := range od.keys {
		hn := q(sub.symHeap + k)
		decls = append(decls, fmt.Sprintf("(%s %s)", hn, w.heapSort[k]))
		args = append(args, hn)
		sorts = append(sorts, w.heapSort[k])
	}
	od.decls, od.args, od.sorts, od.body = decls, args, sorts, body.S
	return od
}
