package main

import (
	"bufio"
	"encoding/json"
	"flag"
	"fmt"
	"os"
	"path/filepath"
	"regexp"
	"sort"
	"strconv"
	"strings"
	"time"
)

// scope of the zero-annotation sweeps
var sweepExclude = regexp.MustCompile(`^(tree\.node\.print|tree\.node\.trace|tree\.Tree\.print|tree\.Tree\.Print|header\.|mux\.init$|syntax\.init$|types\.init$|trace\.init$)`)

type unclaimedFile struct {
	Unclaimed map[string]string `json:"unclaimed"` // obligation name -> reason
}

type finding struct {
	status     string // known | fixed
	property   string
	obligation string
	text       string
}

func readFindings(path string) []finding {
	var out []finding
	f, err := os.Open(path)
	if err != nil {
		return nil
	}
	defer f.Close()
	sc := bufio.NewScanner(f)
	for sc.Scan() {
		l := strings.TrimSpace(sc.Text())
		if l == "" || strings.HasPrefix(l, "#") {
			continue
		}
		var fd finding
		switch {
		case strings.HasPrefix(l, "known:"):
			fd.status = "known"
			l = strings.TrimSpace(l[6:])
		case strings.HasPrefix(l, "fixed:"):
			fd.status = "fixed"
			l = strings.TrimSpace(l[6:])
		default:
			continue
		}
		for _, tok := range strings.Fields(l) {
			if strings.HasPrefix(tok, "property=") {
				fd.property = tok[9:]
			}
			if strings.HasPrefix(tok, "obligation=") {
				fd.obligation = tok[11:]
			}
		}
		fd.text = l
		out = append(out, fd)
	}
	return out
}

func has(ss []string, s string) bool {
	for _, x := range ss {
		if x == s {
			return true
		}
	}
	return false
}

// propsOf: the properties an obligation serves
func propsOf(o *Obligation) []string {
	var out []string
	add := func(p string) {
		if !has(out, p) {
			out = append(out, p)
		}
	}
	switch {
	case strings.HasPrefix(o.Kind, "safe.") || strings.HasPrefix(o.Kind, "range."):
		add("C05")
	case strings.HasPrefix(o.Kind, "lock."):
		add("C06")
	case strings.HasPrefix(o.Kind, "frame.global"):
		add("C07")
	case o.Kind == "pre":
		add("C05")
		for _, p := range o.Props {
			add(p)
		}
		if o.gen.con != nil {
			for _, c := range o.gen.con.Clauses {
				for _, p := range c.Props {
					add(p)
				}
			}
		}
	default:
		for _, p := range o.Props {
			add(p)
		}
	}
	return out
}

type evidence struct {
	PropertyID  string                 `json:"property_id"`
	Tier        string                 `json:"tier"`
	Seed        int                    `json:"seed"`
	Level       string                 `json:"level"`
	Coverage    map[string]interface{} `json:"coverage"`
	Assumptions []string               `json:"assumptions"`
	WallS       float64                `json:"wall_s"`
	Violations  int                    `json:"violations"`
}

func cmdCheck(args []string) {
	fs := flag.NewFlagSet("check", flag.ExitOnError)
	repo := fs.String("repo", "/repo", "")
	verif := fs.String("verif", "/verif", "")
	prop := fs.String("property", "", "")
	tier := fs.String("tier", "quick", "")
	par := fs.Int("par", 16, "")
	evOut := fs.String("evidence", "", "evidence file (default <verif>/evidence/<id>.json)")
	noCache := fs.Bool("nocache", false, "")
	listOnly := fs.Bool("list", false, "list claimed obligations and exit")
	fs.Parse(args)
	if *prop == "" {
		fmt.Fprintln(os.Stderr, "need -property")
		os.Exit(2)
	}
	t0 := time.Now()
	seed, _ := strconv.Atoi(os.Getenv("VERIF_SEED"))
	w, err := LoadWorld(*repo, []string{filepath.Join(*verif, "spec", "extern")})
	if err != nil {
		// a tree that no longer loads cannot be checked: report as broken build, not as a violation
		fmt.Fprintln(os.Stderr, "govc: cannot load /repo:", err)
		os.Exit(2)
	}
	w.computeModsets()
	gens, obls := genAll(w, nil)

	var uncl unclaimedFile
	if b, err := os.ReadFile(filepath.Join(*verif, "spec", "unclaimed.json")); err == nil {
		json.Unmarshal(b, &uncl)
	}
	findings := readFindings(filepath.Join(*verif, "known_findings.txt"))

	// select obligations of this property
	var mine []*Obligation
	fnSet := map[string]bool{}
	for _, o := range obls {
		if !has(propsOf(o), *prop) {
			continue
		}
		if sweepExclude.MatchString(o.Fn) {
			continue
		}
		mine = append(mine, o)
	}
	// contract clauses tagged with the property must each have produced an obligation
	var problems []string
	gensByKey := map[string]*FnGen{}
	for _, g := range gens {
		gensByKey[g.key] = g
	}
	var ckeys []string
	for k := range w.contracts {
		ckeys = append(ckeys, k)
	}
	sort.Strings(ckeys)
	for _, k := range ckeys {
		con := w.contracts[k]
		for _, cl := range con.Clauses {
			if !has(cl.Props, *prop) {
				continue
			}
			g := gensByKey[k]
			if g == nil {
				if cl.Kind == "requires" || strings.Contains(k, ".") && w.findFunc(k) == nil {
					// contract of an interface method / func type / extern: requires clauses yield obligations at call sites only
					if _, isMod := w.funcs[k]; !isMod {
						continue
					}
				}
				continue
			}
			if g.unsupported != "" {
				problems = append(problems, fmt.Sprintf("%s: function left the verifiable subset (%s); clause %q undecided", k, g.unsupported, cl.Src))
				continue
			}
			if cl.Kind == "requires" {
				continue
			}
			found := false
			for _, o := range g.obls {
				if o.Label == cl.Label && (o.Src == cl.Src || (cl.Kind == "callsonly" && o.Kind == "calls")) {
					found = true
					break
				}
			}
			if !found {
				problems = append(problems, fmt.Sprintf("%s: clause %s %q produced no obligation (unreachable exit or missing loop)", k, cl.Kind, cl.Src))
			}
		}
	}
	for _, g := range gens {
		if g.unsupported != "" && strings.HasPrefix(g.unsupported, "spec error") {
			if g.con != nil {
				for _, cl := range g.con.Clauses {
					if has(cl.Props, *prop) {
						problems = append(problems, g.key+": "+g.unsupported)
						break
					}
				}
			}
		}
	}

	claimed := mine[:0:0]
	var unclaimedNames []string
	// zero-annotation obligations are keyed by the text of their source line; when that line is edited the key
	// changes although the obligation is the same undecided one. Such an obligation stays unclaimed as long as the
	// function still has an unclaimed obligation of the same kind (and callee): an edit of a line must not turn an
	// undecided obligation into an alarm.
	coarse := map[string]string{}
	coarseReason := map[*Obligation]string{}
	for k, r := range uncl.Unclaimed {
		if i := strings.Index(k, "@"); i >= 0 {
			coarse[k[:i]] = r
		}
	}
	for _, o := range mine {
		if r, ok := uncl.Unclaimed[o.Key()]; ok {
			unclaimedNames = append(unclaimedNames, o.Key()+": "+r)
			continue
		}
		if i := strings.Index(o.Key(), "@"); i >= 0 {
			if r, ok := coarse[o.Key()[:i]]; ok {
				coarseReason[o] = r // decided after the run: counts if it discharges, stays unclaimed if it does not
			}
		}
		claimed = append(claimed, o)
		fnSet[o.Fn] = true
	}
	if *listOnly {
		for _, o := range claimed {
			fmt.Println(o.Name)
		}
		return
	}
	// vacuity obligations: per function under contract, requires must be satisfiable, and some exit reachable
	var vac []*Obligation
	for fn := range fnSet {
		g := gensByKey[fn]
		if g == nil || g.con == nil {
			continue
		}
		vac = append(vac, g.vacuityObligations()...)
	}

	timeout := 20
	useCache := !*noCache
	if *tier == "thorough" {
		timeout = 90
		useCache = false
	}
	d := NewDischarger(filepath.Join(*verif, "cache"), useCache, timeout)
	defer d.Close()
	all := append(append([]*Obligation{}, claimed...), vac...)
	d.RunAll(w, all, *par)
	// undecided (never: refuted) claimed obligations get a second, uncontended attempt with a longer limit before
	// they are reported: solver time is wall-clock and 16 obligations x 2 back ends compete for the cores
	var again []*Obligation
	for _, o := range claimed {
		if o.Status == "unknown" {
			listed := false
			for _, f := range readFindings(filepath.Join(*verif, "known_findings.txt")) {
				if f.status == "known" && f.property == *prop && (f.obligation == o.Name || f.obligation == o.Key()) {
					listed = true
				}
			}
			if !listed { // a listed finding is expected to stay undecided: no second attempt
				again = append(again, o)
			}
		}
	}
	if len(again) > 0 && len(again) <= 12 {
		d2 := NewDischarger(filepath.Join(*verif, "cache"), useCache, timeout*2)
		d2.RunAll(w, again, 4)
		d2.Close()
		d.total += d2.total
		for k, v := range d2.stats {
			d.stats[k+"(retry)"] += v
		}
	}

	// group by name
	type group struct {
		name string
		obls []*Obligation
	}
	groups := map[string]*group{}
	var order []string
	for _, o := range claimed {
		gp := groups[o.Name]
		if gp == nil {
			gp = &group{name: o.Name}
			groups[o.Name] = gp
			order = append(order, o.Name)
		}
		gp.obls = append(gp.obls, o)
	}
	sort.Strings(order)
	nObl, nDis := 0, 0
	violations := 0
	samples := []interface{}{}
	replayDir := filepath.Join(*verif, "replays", *prop)
	os.MkdirAll(replayDir, 0o755)
	for _, name := range order {
		gp := groups[name]
		nObl++
		var bad *Obligation
		onlyCoarse := true
		for _, o := range gp.obls {
			if o.Status != "discharged" {
				if bad == nil {
					bad = o
				}
				if _, ok := coarseReason[o]; !ok {
					onlyCoarse = false
				}
			}
		}
		if bad != nil && onlyCoarse {
			// an undecided obligation of a function and kind that is already listed as unclaimed (its source line
			// was edited): not claimed, not counted, not an alarm
			nObl--
			unclaimedNames = append(unclaimedNames, bad.Key()+": (same function and kind as an unclaimed obligation whose source line changed) "+coarseReason[bad])
			continue
		}
		if bad == nil {
			for _, o := range gp.obls {
				if o.Time > 5 {
					fmt.Printf("SLOW %s %.1fs %s key=%s\n", *prop, o.Time, o.Solver, o.Key())
				}
			}
			nDis++
			if len(samples) < 8 {
				o := gp.obls[0]
				samples = append(samples, map[string]interface{}{"obligation": o.Name, "at": o.Pos, "clause": o.Src, "answer": "unsat", "backend": o.Solver, "time_s": round3(o.Time), "query_lines": o.NLines, "sites": len(gp.obls)})
			}
			continue
		}
		// known finding?
		known := false
		for _, f := range findings {
			if f.status == "known" && f.property == *prop && (f.obligation == name || f.obligation == bad.Key()) {
				fmt.Printf("KNOWN-FINDING: %s\n", f.text)
				known = true
			}
		}
		if known {
			nObl--
			continue
		}
		violations++
		rp := filepath.Join(replayDir, sanitize(name)+".txt")
		suffix := writeReplay(w, rp, *prop, bad, *repo)
		fmt.Printf("VIOLATION property=%s replay=%s%s\n", *prop, rp, suffix)
	}
	vacStat := map[string]int{}
	for _, o := range vac {
		vacStat[o.Status]++
	}
	if os.Getenv("GOVC_DEBUG") != "" {
		fmt.Fprintln(os.Stderr, "vacuity answers:", vacStat)
	}
	for _, o := range vac {
		if o.Status == "discharged" { // "false" was provable: vacuous
			violations++
			rp := filepath.Join(replayDir, sanitize(o.Name)+".txt")
			os.WriteFile(rp, []byte(fmt.Sprintf("vacuity check failed: %s\nThe assumptions of this function are contradictory or no exit is reachable, so every obligation would pass vacuously.\n", o.Name)), 0o644)
			fmt.Printf("VIOLATION property=%s replay=%s no-failing-input-found\n", *prop, rp)
		}
	}
	for i, p := range problems {
		violations++
		rp := filepath.Join(replayDir, fmt.Sprintf("undecided-%d.txt", i))
		os.WriteFile(rp, []byte("obligation could not be generated: "+p+"\n"), 0o644)
		fmt.Printf("VIOLATION property=%s replay=%s no-failing-input-found\n", *prop, rp)
	}
	if nObl == 0 {
		violations++
		rp := filepath.Join(replayDir, "no-obligations.txt")
		os.WriteFile(rp, []byte("the check generated zero obligations for this property (vacuous)\n"), 0o644)
		fmt.Printf("VIOLATION property=%s replay=%s no-failing-input-found\n", *prop, rp)
	}

	// evidence
	var fns []string
	for f := range fnSet {
		fns = append(fns, f)
	}
	sort.Strings(fns)
	assume := map[string]bool{}
	for _, f := range fns {
		for a := range gensByKey[f].assumptions {
			assume[a] = true
		}
	}
	for _, a := range baseAssumptions {
		assume[a] = true
	}
	var as []string
	for a := range assume {
		as = append(as, a)
	}
	sort.Strings(as)
	sort.Strings(unclaimedNames)
	byBackend := map[string]int{}
	for _, o := range claimed {
		if o.Status == "discharged" {
			byBackend[o.Solver]++
		}
	}
	ev := evidence{PropertyID: *prop, Tier: *tier, Seed: seed, Level: "proof", WallS: round3(time.Since(t0).Seconds()), Violations: violations, Assumptions: as}
	ev.Coverage = map[string]interface{}{
		"obligations":              nObl,
		"discharged":               nDis,
		"obligation_sites":         len(claimed),
		"checker_cmd":              fmt.Sprintf("bin/check --property %s --tier %s", *prop, *tier),
		"trusted_base":             []string{"govc (SSA->SMT VC generator in /verif/govc)", "golang.org/x/tools/go/ssa v0.29.0", "z3 4.8.12 / z3 5.1.0 / cvc5 1.0 (an unsat from one back end is believed)", "assumed extern contracts in /verif/spec/extern"},
		"functions_under_contract": fns,
		"by_backend":               byBackend,
		"solver_time_s":            round3(d.total),
		"samples":                  samples,
		"unclaimed":                unclaimedNames,
		"vacuity_checks":           len(vac),
		"vacuity_note":             fmt.Sprintf("a vacuity check asks the solver to prove false from a function's assumptions at its exits; %d were refuted outright (sat), %d found no contradiction within the limit (inconclusive), 0 proved false", vacStat["failed"], vacStat["unknown"]),
		"integers":                 "mathematical Int with a range obligation at every + - * and narrowing conversion (range.* obligations, property C05)",
		"explanation":              "every listed obligation is a verification condition generated from the SSA of /repo's current working tree (build tag verif) and the //@ contracts in /repo/**/contracts_verif.go; discharged means one SMT back end answered unsat for the negated goal",
	}
	if *evOut == "" {
		*evOut = filepath.Join(*verif, "evidence", *prop+".json")
	}
	os.MkdirAll(filepath.Dir(*evOut), 0o755)
	b, _ := json.MarshalIndent(ev, "", " ")
	os.WriteFile(*evOut, b, 0o644)
	fmt.Printf("property %s: %d/%d obligations discharged (%d sites, %d functions, %d unclaimed) in %.1fs\n", *prop, nDis, nObl, len(claimed), len(fns), len(unclaimedNames), time.Since(t0).Seconds())
	if violations > 0 {
		os.Exit(1)
	}
}

var baseAssumptions = []string{
	"A1: the VC generator (govc) and go/ssa are trusted; mitigated by the must-fail corpus under /verif/selftest",
	"A2: SMT solvers are trusted: unsat from one of z3 4.8.12, z3 5.1.0, cvc5 1.0 discharges an obligation",
	"A3: contracts of functions outside the module (strings, slices, strconv, regexp, net/http, sync, errwrap, mime, html) are assumed, see /verif/spec/extern",
	"A4: user-supplied callbacks (handlers, CallFunc, middleware factories, interceptor funcs, RecoverFunc, errlog) do not touch the router's internal state; where a property needs it they are deterministic functions of their arguments",
	"A6: two live slices never share a backing array in an observable way (append yields fresh storage)",
	"partial correctness only: termination is not proved",
}

func round3(f float64) float64 { return float64(int(f*1000+0.5)) / 1000 }

func sanitize(s string) string {
	return strings.NewReplacer("/", "_", "(", "_", ")", "_", "*", "_", "$", "_", "[", "_", "]", "_", "#", "_", " ", "_").Replace(s)
}

func writeReplay(w *World, path, prop string, o *Obligation, repo string) string {
	var sb strings.Builder
	fmt.Fprintf(&sb, "property: %s\nfailed obligation: %s\nobligation key: %s\nkind: %s\nat: %s\n", prop, o.Name, o.Key(), o.Kind, o.Pos)
	if o.Src != "" {
		fmt.Fprintf(&sb, "clause: %s\n", o.Src)
	}
	fmt.Fprintf(&sb, "verifier answer: %s (%s)\n", o.Status, o.Solver)
	suffix := " no-failing-input-found"
	if o.Status == "failed" && o.Model != "" {
		fmt.Fprintf(&sb, "\ncounterexample model (values of the function's parameters and heap at entry):\n%s\n", modelSummary(o.Model))
	} else if o.ModelQuery != "" {
		fmt.Fprintf(&sb, "\nno back end decided the full obligation; its quantifier-free part has a model, used below as a candidate counterexample\n")
	} else {
		fmt.Fprintf(&sb, "\nno counterexample: no back end could decide the obligation within the time limit (%s)\n", o.Model)
	}
	qp := strings.TrimSuffix(path, ".txt") + ".smt2"
	os.WriteFile(qp, []byte(w.query(o, true)), 0o644)
	fmt.Fprintf(&sb, "\nSMT query: %s\nre-run: z3-new -smt2 %s\n", qp, qp)
	// concrete replay against the real code, where a harness exists for this function
	if ok, out := tryReplay(w, o, repo, path); out != "" {
		fmt.Fprintf(&sb, "\nreplay against the real code:\n%s\n", out)
		if ok {
			suffix = ""
		}
	}
	os.WriteFile(path, []byte(sb.String()), 0o644)
	return suffix
}

func modelSummary(m string) string {
	// keep parameter and entry-heap definitions, drop the rest
	var out []string
	lines := strings.Split(m, "\n")
	for i := 0; i < len(lines); i++ {
		l := lines[i]
		if strings.Contains(l, "define-fun |p:") || strings.Contains(l, "define-fun |fv:") {
			out = append(out, strings.TrimSpace(l))
			if i+1 < len(lines) && !strings.Contains(lines[i+1], "define-fun") {
				out = append(out, "   "+strings.TrimSpace(lines[i+1]))
			}
		}
	}
	if len(out) == 0 {
		if len(m) > 4000 {
			m = m[:4000] + "\n..."
		}
		return m
	}
	return strings.Join(out, "\n")
}

func (g *FnGen) vacuityObligations() []*Obligation {
	if g.unsupported != "" || len(g.lines) == 0 {
		return nil
	}
	var out []*Obligation
	// some exit (return) must be reachable under the assumptions
	var reaches []string
	maxLines := 0
	for _, o := range g.obls {
		if o.NLines > maxLines {
			maxLines = o.NLines
		}
	}
	for b, r := range g.reach {
		if len(b.Succs) == 0 {
			reaches = append(reaches, r)
		}
	}
	sort.Strings(reaches)
	if len(reaches) == 0 {
		return nil
	}
	o := &Obligation{Name: g.key + "/vacuity.exit", Fn: g.key, Kind: "vacuity", NLines: len(g.lines), Reach: "(or " + strings.Join(reaches, " ") + " false)", Goal: "false", gen: g}
	out = append(out, o)
	// exceptional exits must be reachable too, or every xpost obligation is vacuous
	if g.wantX() {
		var xr []string
		for _, x := range g.xexits {
			xr = append(xr, x.reach)
		}
		if len(xr) > 0 {
			out = append(out, &Obligation{Name: g.key + "/vacuity.xexit", Fn: g.key, Kind: "vacuity", NLines: len(g.lines), Reach: "(or " + strings.Join(xr, " ") + " false)", Goal: "false", gen: g})
		}
	}
	return out
}
