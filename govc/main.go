package main

import (
	"crypto/sha256"
	"flag"
	"fmt"
	"os"
	"regexp"
	"sort"
	"strings"
	"time"
)

var extraCmds = map[string]func([]string){}

func genAll(w *World, filter *regexp.Regexp) ([]*FnGen, []*Obligation) {
	var keys []string
	for k := range w.funcs {
		keys = append(keys, k)
	}
	sort.Strings(keys)
	// make sure all heap keys used by contracts exist before generation: run twice (first pass registers sorts)
	var gens []*FnGen
	var obls []*Obligation
	for _, k := range keys {
		if filter != nil && !filter.MatchString(k) {
			continue
		}
		g := NewFnGen(w, w.funcs[k])
		g.Generate()
		gens = append(gens, g)
		if g.unsupported == "" {
			obls = append(obls, g.obls...)
		}
	}
	return gens, obls
}

func main() {
	if len(os.Args) < 2 {
		fmt.Fprintln(os.Stderr, "usage: govc run|check|list ...")
		os.Exit(2)
	}
	switch os.Args[1] {
	case "run":
		cmdRun(os.Args[2:])
	case "check":
		cmdCheck(os.Args[2:])
	case "uf":
		b, _ := os.ReadFile(os.Args[2])
		fmt.Print(toUF(string(b)))
	default:
		if f, ok := extraCmds[os.Args[1]]; ok {
			f(os.Args[2:])
			return
		}
		fmt.Fprintln(os.Stderr, "unknown command")
		os.Exit(2)
	}
}

func fileExists(p string) bool { _, err := os.Stat(p); return err == nil }

func cmdRun(args []string) {
	fs := flag.NewFlagSet("run", flag.ExitOnError)
	repo := fs.String("repo", "/repo", "")
	spec := fs.String("spec", "/verif/spec/extern", "")
	fn := fs.String("fn", ".", "regexp on function keys")
	only := fs.String("obl", "", "regexp on obligation names")
	dump := fs.String("dump", "", "directory to dump queries of non-discharged obligations")
	timeout := fs.Int("timeout", 20, "")
	par := fs.Int("par", 16, "")
	verbose := fs.Bool("v", false, "")
	dumpAll := fs.Bool("dumpall", false, "dump queries of discharged obligations too")
	fs.Parse(args)
	t0 := time.Now()
	w, err := LoadWorld(*repo, []string{*spec})
	if err != nil {
		fmt.Fprintln(os.Stderr, "load:", err)
		os.Exit(2)
	}
	fmt.Fprintf(os.Stderr, "loaded in %.1fs, %d functions, %d contracts\n", time.Since(t0).Seconds(), len(w.funcs), len(w.contracts))
	// first pass over everything to register heap sorts used anywhere (cheap), then the real pass
	w.computeModsets()
	re := regexp.MustCompile(*fn)
	gens, obls := genAll(w, re)
	for _, g := range gens {
		if g.unsupported != "" {
			fmt.Printf("UNSUPPORTED %s: %s\n", g.key, g.unsupported)
		}
	}
	if *only != "" {
		ore := regexp.MustCompile(*only)
		var f []*Obligation
		for _, o := range obls {
			if ore.MatchString(o.Name) {
				f = append(f, o)
			}
		}
		obls = f
	}
	d := NewDischarger("", false, *timeout)
	defer d.Close()
	t1 := time.Now()
	d.RunAll(w, obls, *par)
	nd := 0
	for _, o := range obls {
		if o.Status == "discharged" && *dumpAll && *dump != "" {
			os.MkdirAll(*dump, 0o755)
			name := strings.NewReplacer("/", "_", "(", "_", ")", "_", "*", "_", "$", "_", "[", "_", "]", "_").Replace(o.Name)
			fn := fmt.Sprintf("%s/%s.smt2", *dump, name)
			for k := 2; fileExists(fn); k++ {
				fn = fmt.Sprintf("%s/%s~%d.smt2", *dump, name, k)
			}
			os.WriteFile(fn, []byte(w.query(o, false)), 0o644)
		}
		if o.Status == "discharged" {
			nd++
			if *verbose {
				fmt.Printf("ok      %-70s %s %.2fs\n", o.Name, o.Solver, o.Time)
			}
			continue
		}
		fmt.Printf("%-7s %-70s %s %s\n", o.Status, o.Name, o.Pos, o.Src)
		if *dump != "" {
			os.MkdirAll(*dump, 0o755)
			name := strings.NewReplacer("/", "_", "(", "_", ")", "_", "*", "_", "$", "_", "[", "_", "]", "_").Replace(o.Name)
			os.WriteFile(fmt.Sprintf("%s/%s.smt2", *dump, name), []byte(w.query(o, true)), 0o644)
			if o.Model != "" {
				os.WriteFile(fmt.Sprintf("%s/%s.model", *dump, name), []byte(o.Model), 0o644)
			}
		}
	}
	fmt.Printf("%d/%d discharged in %.1fs (solver time %.1fs) %v\n", nd, len(obls), time.Since(t1).Seconds(), d.total, d.stats)
}

func init() {
	extraCmds["modset"] = func(args []string) {
		w, err := LoadWorld("/repo", []string{"/verif/spec/extern"})
		if err != nil {
			panic(err)
		}
		w.computeModsets()
		for _, k := range args {
			f := w.funcs[k]
			if f == nil {
				fmt.Println("unknown", k)
				continue
			}
			var ks []string
			for key, lvl := range w.modset(f) {
				ks = append(ks, fmt.Sprintf("%s=%d", key, lvl))
			}
			sort.Strings(ks)
			fmt.Println(k, ks)
		}
	}
}

func init() {
	// baseline: list the keys of the obligations that do not discharge on the current tree (candidates for spec/unclaimed.json)
	extraCmds["baseline"] = func(args []string) {
		w, err := LoadWorld("/repo", []string{"/verif/spec/extern"})
		if err != nil {
			panic(err)
		}
		w.computeModsets()
		_, obls := genAll(w, nil)
		var sel []*Obligation
		for _, o := range obls {
			if !sweepExclude.MatchString(o.Fn) {
				sel = append(sel, o)
			}
		}
		d := NewDischarger("/verif/cache", true, 20)
		defer d.Close()
		d.RunAll(w, sel, 16)
		out := map[string]string{}
		for _, o := range sel {
			if o.Status != "discharged" {
				out[o.Key()] = o.Status
			}
		}
		var ks []string
		for k := range out {
			ks = append(ks, k)
		}
		sort.Strings(ks)
		for _, k := range ks {
			fmt.Printf("%s\t%s\n", out[k], k)
		}
	}
}

func init() {
	// hashes: name and sha256 of every generated query (determinism check: two runs must print the same)
	extraCmds["hashes"] = func(args []string) {
		w, err := LoadWorld("/repo", []string{"/verif/spec/extern"})
		if err != nil {
			panic(err)
		}
		w.computeModsets()
		_, obls := genAll(w, nil)
		for i, o := range obls {
			h := sha256.Sum256([]byte(w.query(o, false)))
			fmt.Printf("%d %s %x\n", i, o.Name, h[:8])
		}
	}
}
