package main

import (
	"go/types"
	"context"
	"fmt"
	"os"
	"os/exec"
	"path/filepath"
	"regexp"
	"strconv"
	"strings"
	"time"
)

// Replay of solver counterexamples against the real code.
//
// For functions whose inputs are scalars and strings (or reachable through a small known harness) the values of
// the inputs are read from the solver with (get-value ...) and a Go test is generated, injected into the package
// with `go test -overlay` (nothing is written to /repo) and run. For safe.* obligations the oracle is "the real
// function panics with a runtime error"; for a few clause obligations a small executable restatement of the
// clause is the oracle. A replay that does not reproduce never clears the violation.

type replayInput struct {
	name string // Go identifier in the template
	term string // SMT term to evaluate in the model
	kind string // string | int | bool
}

type replaySpec struct {
	pkgDir string // directory of the package relative to the repo
	pkg    string // package name
	inputs []replayInput
	// body of the test: uses the input identifiers; must call t.Fatalf on reproduction of a *post* violation;
	// runtime panics are caught by the wrapper and count as reproduction of safe.* obligations
	body    string
	imports []string
}

var replaySpecs = map[string]replaySpec{
	"mux.Hosts.Match": {pkgDir: ".", pkg: "mux", imports: []string{"net/http/httptest", "github.com/issue9/mux/v9/types"},
		inputs: []replayInput{{"host", "(select |H0:F:http.Request.Host| |p:r|)", "string"}},
		body: `hs := NewHosts(false, "example.com", "{sub}.example.org")
	r := httptest.NewRequest("GET", "http://x/", nil)
	r.Host = host
	hs.Match(r, types.NewContext())`},
	"mux.validOptionalPort": {pkgDir: ".", pkg: "mux",
		inputs: []replayInput{{"port", "|p:port|", "string"}},
		body: `got := validOptionalPort(port)
	want := port == ""
	if !want && port[0] == ':' {
		want = true
		for i := 1; i < len(port); i++ {
			if port[i] < '0' || port[i] > '9' {
				want = false
			}
		}
	}
	if got != want {
		t.Fatalf("validOptionalPort(%q) = %v, specification says %v", port, got, want)
	}`},
	"syntax.splitString": {pkgDir: "internal/syntax", pkg: "syntax",
		inputs: []replayInput{{"str", "|p:str|", "string"}},
		body: `ss := splitString(str)
	joined := ""
	for i, s := range ss {
		if s == "" {
			t.Fatalf("splitString(%q) has an empty piece %d: %q", str, i, ss)
		}
		joined += s
	}
	if joined != str {
		t.Fatalf("splitString(%q) = %q does not concatenate to its input", str, ss)
	}`},
	"syntax.longestPrefix": {pkgDir: "internal/syntax", pkg: "syntax",
		inputs: []replayInput{{"s1", "|p:s1|", "string"}, {"s2", "|p:s2|", "string"}},
		body: `l := longestPrefix(s1, s2)
	if l > len(s1) || l > len(s2) || (l > 0 && s1[:l] != s2[:l]) {
		t.Fatalf("longestPrefix(%q, %q) = %d is not a common prefix length", s1, s2, l)
	}`},
	"syntax.Interceptors.NewSegment": {pkgDir: "internal/syntax", pkg: "syntax",
		inputs: []replayInput{{"val", "|p:val|", "string"}},
		body: `i := NewInterceptors()
	i.Add(MatchDigit, "digit")
	seg, err := i.NewSegment(val)
	if err == nil && seg.Value != val {
		t.Fatalf("NewSegment(%q).Value = %q", val, seg.Value)
	}`},
	"syntax.Interceptors.Split": {pkgDir: "internal/syntax", pkg: "syntax",
		inputs: []replayInput{{"str", "|p:str|", "string"}},
		body: `i := NewInterceptors()
	i.Add(MatchDigit, "digit")
	i.Split(str)`},
	"mux.NewPathVersion": {pkgDir: ".", pkg: "mux", imports: []string{"net/http/httptest", "github.com/issue9/mux/v9/types"},
		inputs: []replayInput{{"v0", "(elem_Slice_String |H0:S:string| |p:version| 0)", "string"}},
		body: `if v0 == "" {
		return
	}
	m := NewPathVersion("ver", v0)
	norm := v0
	if norm[0] != '/' {
		norm = "/" + norm
	}
	if norm[len(norm)-1] != '/' {
		norm += "/"
	}
	r := httptest.NewRequest("GET", "http://x/", nil)
	r.URL.Path = norm + "rest"
	ctx := types.NewContext()
	if !m.Match(r, ctx) || r.URL.Path != "/rest" {
		t.Fatalf("NewPathVersion(%q) does not accept %q (path after Match: %q)", v0, norm+"rest", r.URL.Path)
	}
	if got, _ := ctx.Get("ver"); got != norm[:len(norm)-1] {
		t.Fatalf("recorded version %q, want %q", got, norm[:len(norm)-1])
	}`},
	"mux.CheckSyntax": {pkgDir: ".", pkg: "mux",
		inputs: []replayInput{{"pattern", "|p:pattern|", "string"}},
		body:   `CheckSyntax(pattern)`},
}

var smtStrRe = regexp.MustCompile(`\\u\{([0-9a-fA-F]+)\}`)

func decodeSMTString(s string) string {
	s = strings.TrimSpace(s)
	if len(s) >= 2 && s[0] == '"' {
		s = s[1 : len(s)-1]
	}
	s = strings.ReplaceAll(s, `""`, `"`)
	return smtStrRe.ReplaceAllStringFunc(s, func(m string) string {
		v, _ := strconv.ParseInt(smtStrRe.FindStringSubmatch(m)[1], 16, 32)
		if v < 256 {
			return string([]byte{byte(v)})
		}
		return string(rune(v))
	})
}

// tryReplay: see file comment. Returns (reproduced, transcript).
func tryReplay(w *World, o *Obligation, repo, replayPath string) (bool, string) {
	spec, ok := replaySpecs[o.Fn]
	if !ok {
		spec, ok = autoReplaySpec(w, o)
	}
	if !ok || (o.Status != "failed" && o.ModelQuery == "") {
		return false, ""
	}
	// ask the solver for the input values
	q := w.query(o, false)
	if o.Status != "failed" {
		q = o.ModelQuery + "\n(check-sat)\n"
	}
	var terms []string
	for _, in := range spec.inputs {
		terms = append(terms, in.term)
	}
	q += fmt.Sprintf("(get-value (%s))\n", strings.Join(terms, " "))
	dir, _ := os.MkdirTemp("", "govc-replay-")
	defer os.RemoveAll(dir)
	qf := filepath.Join(dir, "q.smt2")
	os.WriteFile(qf, []byte(q), 0o644)
	solver := o.Solver
	if solver == "" {
		solver = "z3-new"
	}
	var out string
	for _, s := range solvers {
		if s.name == strings.TrimSuffix(solver, "/uf") {
			_, out, _ = runSolver(context.Background(), s, qf, 20)
		}
	}
	vals := parseGetValue(out, len(spec.inputs))
	if vals == nil {
		return false, "could not read input values from the solver output:\n" + firstLines(out, 6)
	}
	var sb strings.Builder
	fmt.Fprintf(&sb, "package %s\n\nimport (\n\t\"testing\"\n", spec.pkg)
	for _, im := range spec.imports {
		fmt.Fprintf(&sb, "\t%q\n", im)
	}
	fmt.Fprintf(&sb, ")\n\n// generated by govc from the counterexample of obligation %s\nfunc TestGovcReplay(t *testing.T) {\n", o.Name)
	var desc []string
	for i, in := range spec.inputs {
		switch in.kind {
		case "string":
			v := decodeSMTString(vals[i])
			if len(v) > 1<<16 {
				return false, fmt.Sprintf("model value of %s is %d bytes long; not replayed", in.name, len(v))
			}
			fmt.Fprintf(&sb, "\t%s := %q\n", in.name, v)
			desc = append(desc, fmt.Sprintf("%s=%q", in.name, v))
		default:
			fmt.Fprintf(&sb, "\t%s := %s\n", in.name, strings.Trim(vals[i], "() "))
			desc = append(desc, fmt.Sprintf("%s=%s", in.name, vals[i]))
		}
	}
	sb.WriteString("\tdefer func() {\n\t\tif e := recover(); e != nil {\n\t\t\tif _, isRuntime := e.(interface{ RuntimeError() }); isRuntime {\n\t\t\t\tt.Fatalf(\"runtime panic: %v\", e)\n\t\t\t}\n\t\t\tt.Logf(\"documented panic with an explicit value: %v\", e)\n\t\t}\n\t}()\n\t")
	sb.WriteString(spec.body)
	sb.WriteString("\n}\n")
	testFile := strings.TrimSuffix(replayPath, ".txt") + "_replay_test.go"
	os.WriteFile(testFile, []byte(sb.String()), 0o644)
	target := filepath.Join(repo, spec.pkgDir, "zz_govc_replay_test.go")
	ov := filepath.Join(dir, "ov.json")
	os.WriteFile(ov, []byte(fmt.Sprintf(`{"Replace":{%q:%q}}`, target, testFile)), 0o644)
	ctx, cancel := context.WithTimeout(context.Background(), 90*time.Second)
	defer cancel()
	cmd := exec.CommandContext(ctx, "sh", "-c", fmt.Sprintf("ulimit -v 4000000; cd %q && go test -overlay %q -vet=off -count=1 -timeout 60s -run TestGovcReplay .", filepath.Join(repo, spec.pkgDir), ov))
	cmd.Env = append(os.Environ(), "GOFLAGS=-mod=mod", "GOPROXY=off", "GOSUMDB=off", "GOTOOLCHAIN=local")
	b, _ := cmd.CombinedOutput()
	res := string(b)
	reproduced := strings.Contains(res, "--- FAIL: TestGovcReplay")
	tr := fmt.Sprintf("inputs from the model: %s\ngenerated test: %s\nrun: go test -overlay ... -run TestGovcReplay (in %s)\n%s", strings.Join(desc, ", "), testFile, spec.pkgDir, firstLines(res, 12))
	if reproduced {
		tr += "\n=> the counterexample REPRODUCES on the real code"
	} else {
		tr += "\n=> the real code did not fail on this input (the model may rely on unconstrained callee results)"
	}
	return reproduced, tr
}

// parseGetValue extracts n values from a "(get-value ...)" answer: ((term value) (term value) ...)
func parseGetValue(out string, n int) []string {
	i := strings.Index(out, "((")
	if i < 0 {
		return nil
	}
	forms := parseSx(out[i:])
	if len(forms) == 0 || !forms[0].isL || len(forms[0].list) < n {
		return nil
	}
	var vals []string
	for _, pair := range forms[0].list[:n] {
		if !pair.isL || len(pair.list) != 2 {
			return nil
		}
		vals = append(vals, pair.list[1].String())
	}
	return vals
}

// autoReplaySpec: for a package-level function of the module whose parameters are all strings, integers or
// booleans, the model's parameter values are simply passed to the real function; the oracle is "a runtime error
// panic" (so this confirms safe.* and range.* counterexamples; clause violations need a hand-written oracle above).
func autoReplaySpec(w *World, o *Obligation) (replaySpec, bool) {
	if !strings.HasPrefix(o.Kind, "safe.") {
		return replaySpec{}, false
	}
	f := w.funcs[o.Fn]
	if f == nil || f.Signature.Recv() != nil || f.Pkg == nil || f.Parent() != nil || f.TypeParams().Len() > 0 || len(f.Params) == 0 || f.Signature.Variadic() {
		return replaySpec{}, false
	}
	path := f.Pkg.Pkg.Path()
	if !strings.HasPrefix(path, modPath) {
		return replaySpec{}, false
	}
	sp := replaySpec{pkgDir: "." + strings.TrimPrefix(path, modPath), pkg: f.Pkg.Pkg.Name()}
	var args []string
	for _, p := range f.Params {
		b, ok := types.Unalias(p.Type()).Underlying().(*types.Basic)
		if !ok {
			return replaySpec{}, false
		}
		kind := ""
		switch {
		case b.Info()&types.IsString != 0:
			kind = "string"
		case b.Info()&types.IsInteger != 0:
			kind = "int"
		case b.Info()&types.IsBoolean != 0:
			kind = "bool"
		default:
			return replaySpec{}, false
		}
		sp.inputs = append(sp.inputs, replayInput{"a_" + p.Name(), q("p:" + p.Name()), kind})
		arg := "a_" + p.Name()
		if kind == "int" {
			arg = fmt.Sprintf("%s(%s)", types.TypeString(p.Type(), func(*types.Package) string { return "" }), arg)
		}
		args = append(args, arg)
	}
	sp.body = fmt.Sprintf("%s(%s)", f.Name(), strings.Join(args, ", "))
	return sp, true
}
