package main

// tryReplay builds, where a harness is known for the obligation's function, a Go test from the
// solver model, injects it with `go test -overlay` and runs it against the real code.
// Returns (reproduced, transcript). An empty transcript means no harness exists.
func tryReplay(w *World, o *Obligation, repo, replayPath string) (bool, string) {
	return false, ""
}
