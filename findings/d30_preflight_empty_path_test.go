package mux

// D30 (C11): a request with an empty URL path is matched to the root node, whose method set is the server-wide
// summary behind OPTIONS *. A preflight on that path for any method served anywhere was granted
// (Access-Control-Allow-Origin sent), although the same method on that path answers 405.
import (
	"net/http"
	"net/http/httptest"
	"testing"
)

func TestFindingD30(t *testing.T) {
	r, _ := fRouter(t, WithCORS([]string{"https://a.example"}, nil, nil, 0, true))
	r.Delete("/items/{id}", fOK)

	if w := fServe(r, http.MethodDelete, ""); w.Code != http.StatusMethodNotAllowed && w.Code != http.StatusNotFound {
		t.Skipf("DELETE on the empty path is served (%d)", w.Code)
	}

	req := httptest.NewRequest(http.MethodOptions, "http://x/", nil)
	req.URL.Path = ""
	req.Header.Set("Origin", "https://a.example")
	req.Header.Set("Access-Control-Request-Method", "DELETE")
	w := httptest.NewRecorder()
	r.ServeHTTP(w, req)
	if got := w.Header().Get("Access-Control-Allow-Origin"); got != "" && w.Header().Get("Access-Control-Allow-Methods") != "" {
		t.Fatalf("preflight for DELETE on the empty path granted (ACAO=%q, ACAM=%q) although DELETE is not served there",
			got, w.Header().Get("Access-Control-Allow-Methods"))
	}
}
