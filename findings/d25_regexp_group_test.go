package mux

// D25 (C05): a regexp rule whose text closes the generated group early, e.g. {id:a)|(b}, is accepted by CheckSyntax
// and Handle (it compiles as (?P<id>a)|(b)); a request on which the named group does not participate then made
// Segment.Match slice the path with -1.
import (
	"net/http"
	"testing"
)

func TestFindingD25(t *testing.T) {
	if err := CheckSyntax("/{id:a)|(b}"); err != nil {
		t.Skipf("pattern rejected: %v", err)
	}
	r, _ := fRouter(t)
	r.Get("/{id:a)|(b}", fOK)
	defer func() {
		if e := recover(); e != nil {
			t.Fatalf("request panicked: %v", e)
		}
	}()
	w := fServe(r, http.MethodGet, "/b")
	t.Logf("status %d", w.Code)
}
