package mux

// D24 (C06): with WithLock(true), the OPTIONS / 405 handlers call node.AllowHeader() after the tree lock was
// released, while Handle/Remove rewrite node.methodIndex under the write lock.
// Run with: go test -race -overlay ... -run TestFindingD24
import (
	"net/http"
	"sync"
	"testing"
)

func TestFindingD24(t *testing.T) {
	r, _ := fRouter(t, WithLock(true))
	r.Get("/stable/{id}", fOK)
	var wg sync.WaitGroup
	stop := make(chan struct{})
	wg.Add(2)
	go func() {
		defer wg.Done()
		for i := 0; i < 3000; i++ {
			r.Post("/stable/{id}", fOK)
			r.Remove("/stable/{id}", http.MethodPost)
		}
		close(stop)
	}()
	go func() {
		defer wg.Done()
		for {
			select {
			case <-stop:
				return
			default:
				fServe(r, "OPTIONS", "/stable/5")
				fServe(r, "DELETE", "/stable/5")
			}
		}
	}()
	wg.Wait()
}
