package mux

// Demonstration of D17 (C12: requested header names compared case-sensitively) and
// D18 (C12: Vary carries response-header names). Run with:
//   go test -overlay <ov.json> -vet=off -run 'TestFindingD1[78]' .
import (
	"net/http"
	"net/http/httptest"
	"testing"
)

func findingRouter(o ...Option) *Router[http.Handler] {
	call := func(w http.ResponseWriter, r *http.Request, ps types_Route, h http.Handler) { h.ServeHTTP(w, r) }
	nf := http.NotFoundHandler()
	b := func(n types_Node) http.Handler { return http.HandlerFunc(func(w http.ResponseWriter, r *http.Request) { w.Header().Set("Allow", n.AllowHeader()) }) }
	return NewRouter[http.Handler]("f", call, nf, b, b, o...)
}

func TestFindingD17(t *testing.T) {
	r := findingRouter(WithCORS([]string{"https://a.example"}, []string{"Content-Type"}, nil, 0, false))
	r.Get("/x", http.HandlerFunc(func(w http.ResponseWriter, r *http.Request) {}))
	req := httptest.NewRequest("OPTIONS", "/x", nil)
	req.Header.Set("Origin", "https://a.example")
	req.Header.Set("Access-Control-Request-Method", "GET")
	req.Header.Set("Access-Control-Request-Headers", "content-type")
	w := httptest.NewRecorder()
	r.ServeHTTP(w, req)
	if got := w.Header().Get("Access-Control-Allow-Origin"); got != "https://a.example" {
		t.Fatalf("preflight with lower-case header name refused: ACAO=%q", got)
	}
}

func TestFindingD18(t *testing.T) {
	r := findingRouter(WithCORS([]string{"https://a.example"}, []string{"Content-Type"}, nil, 0, false))
	r.Get("/x", http.HandlerFunc(func(w http.ResponseWriter, r *http.Request) {}))
	req := httptest.NewRequest("GET", "/x", nil)
	req.Header.Set("Origin", "https://a.example")
	w := httptest.NewRecorder()
	r.ServeHTTP(w, req)
	vary := w.Header().Values("Vary")
	ok := false
	for _, v := range vary {
		if v == "Origin" {
			ok = true
		}
		if v == "Access-Control-Allow-Origin" {
			t.Fatalf("Vary names a response header: %v", vary)
		}
	}
	if !ok {
		t.Fatalf("Vary lacks Origin: %v", vary)
	}
}
