package mux

// D29 (C17): a Handle call rejected for its method list had already reshaped the tree (getNode splits nodes before
// addMethods validates): the dispatch outcome of an existing route changed although the call "changed nothing".
import (
	"net/http"
	"testing"
)

func TestFindingD29(t *testing.T) {
	r, _ := fRouter(t)
	r.Get("/posts/{id}/author", fOK)
	before := fServe(r, http.MethodGet, "/posts/x/abc/author").Code

	func() {
		defer func() { recover() }()
		r.Handle("/posts/{id}/about", fOK, nil, "BOGUS") // rejected: unsupported method
	}()

	after := fServe(r, http.MethodGet, "/posts/x/abc/author").Code
	if before != after {
		t.Fatalf("GET /posts/x/abc/author: %d before the rejected Handle, %d after it", before, after)
	}
}
