package mux

// D28 (C10): strict URL building accepted a pattern that is only an internal node of the tree (no handlers): it is
// not a live route of the router.
import "testing"

func TestFindingD28(t *testing.T) {
	r, _ := fRouter(t)
	r.Get("/posts/{id:\\d+}/author", fOK)
	r.Get("/posts/{id:\\d+}/about", fOK)
	// "/posts/{id:\d+}/a" is an internal node created by the split; it serves nothing
	if u, err := r.URL(true, "/posts/{id:\\d+}/a", map[string]string{"id": "5"}); err == nil {
		t.Fatalf("strict URL for a pattern that is not a route: %q", u)
	}
	if _, err := r.URL(true, "/posts/{id:\\d+}/author", map[string]string{"id": "5"}); err != nil {
		t.Fatalf("live route rejected: %v", err)
	}
}
