package mux

import "github.com/issue9/mux/v9/types"

type types_Route = types.Route
type types_Node = types.Node
