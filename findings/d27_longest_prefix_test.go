package mux

// D27 (C03, C05): longestPrefix looked at the brace state *including* the first differing byte of the new pattern;
// when that byte was the '}' of a shorter parameter name, the existing segment was cut inside its braces.
import (
	"net/http"
	"testing"
)

func TestFindingD27Routes(t *testing.T) {
	r, _ := fRouter(t)
	r.Get("/{idx}/b", fOK)
	if w := fServe(r, http.MethodGet, "/foo/b"); w.Code != 200 {
		t.Fatalf("before: %d", w.Code)
	}
	r.Get("/{id}/a", fOK)
	if w := fServe(r, http.MethodGet, "/foo/b"); w.Code != 200 {
		t.Fatalf("GET /foo/b is %d after registering the unrelated sibling /{id}/a", w.Code)
	}
	if w := fServe(r, http.MethodGet, "/foo/a"); w.Code != 200 {
		t.Fatalf("GET /foo/a is %d", w.Code)
	}
}

func TestFindingD27Panic(t *testing.T) {
	if CheckSyntax("/{i:ab:{c}/y") != nil || CheckSyntax("/{i:a}/x") != nil {
		t.Skip("patterns rejected")
	}
	r, _ := fRouter(t)
	defer func() {
		if e := recover(); e != nil {
			if _, isRuntime := e.(interface{ RuntimeError() }); isRuntime {
				t.Fatalf("Handle panicked with a runtime fault: %v", e)
			}
		}
	}()
	r.Get("/{i:ab:{c}/y", fOK)
	r.Get("/{i:a}/x", fOK)
}
