package mux

import (
	"net/http"
	"net/http/httptest"
	"strings"
	"sync"
	"sync/atomic"
	"testing"
	"time"

	"github.com/issue9/mux/v9/types"
)

// C06: with WithLock(true) every response must be one the router could have produced
// sequentially at some instant between the start and the end of the request.
//
// The node and its handler are selected under the read lock, but the state the generated
// 405/OPTIONS handlers (and the CORS code) report - node.AllowHeader()/node.Methods() - is read
// later, in separate critical sections. A Remove that is scheduled in between produces
// "405 Method Not Allowed" with an EMPTY Allow header (or "200 OPTIONS" with an empty Allow header):
// sequentially the router answers either 405 + "GET, HEAD, OPTIONS" (before) or 404 (after).
func TestFinding2_StaleNodeAfterMatch(t *testing.T) {
	b405 := func(n types.Node) http.Handler {
		return http.HandlerFunc(func(w http.ResponseWriter, r *http.Request) {
			w.Header().Set("Allow", n.AllowHeader())
			w.WriteHeader(http.StatusMethodNotAllowed)
		})
	}
	bOpt := func(n types.Node) http.Handler {
		return http.HandlerFunc(func(w http.ResponseWriter, r *http.Request) {
			w.Header().Set("Allow", n.AllowHeader())
			w.WriteHeader(http.StatusOK)
		})
	}

	for _, method := range []string{http.MethodPut, http.MethodOptions} {
		var between func() // runs after the router selected the handler and before the handler runs
		call := func(w http.ResponseWriter, r *http.Request, _ types.Route, h http.Handler) {
			if between != nil {
				between()
			}
			h.ServeHTTP(w, r)
		}
		r := NewRouter[http.Handler]("c06", call, http.NotFoundHandler(), b405, bOpt, WithLock(true))
		get := http.HandlerFunc(func(w http.ResponseWriter, _ *http.Request) { w.WriteHeader(http.StatusOK) })
		r.Get("/r", get)

		// The writer is a different goroutine; the hook only fixes the schedule (a legal interleaving).
		between = func() {
			done := make(chan struct{})
			go func() { r.Remove("/r"); close(done) }()
			<-done
		}

		w := httptest.NewRecorder()
		r.ServeHTTP(w, httptest.NewRequest(method, "/r", nil))
		code, allow := w.Code, w.Header().Get("Allow")

		before := (method == http.MethodPut && code == 405 || method == http.MethodOptions && code == 200) && allow == "GET, HEAD, OPTIONS"
		after := code == 404
		if !before && !after {
			t.Errorf("%s /r concurrent with Remove(/r): got status %d with Allow=%q; sequentially only (405|200, Allow=\"GET, HEAD, OPTIONS\") or 404 are possible", method, code, allow)
		}
	}
}

// Same root cause, no scheduling hook: a CORS preflight for POST while POST is being toggled on a route
// that permanently has GET. Sequentially the answer either carries no CORS header at all (POST absent)
// or Access-Control-Allow-Methods containing POST. Because Methods() and AllowHeader() are two separate
// critical sections, the router sometimes grants the preflight (Allow-Origin: *) with an
// Access-Control-Allow-Methods list that does not contain POST.
func TestFinding2_PreflightTorn(t *testing.T) {
	call := func(w http.ResponseWriter, r *http.Request, _ types.Route, h http.Handler) { h.ServeHTTP(w, r) }
	bb := func(n types.Node) http.Handler {
		return http.HandlerFunc(func(w http.ResponseWriter, r *http.Request) { w.Header().Set("Allow", n.AllowHeader()) })
	}
	r := NewRouter[http.Handler]("c06", call, http.NotFoundHandler(), bb, bb, WithLock(true), WithAllowedCORS(0))
	h := http.HandlerFunc(func(w http.ResponseWriter, _ *http.Request) {})
	r.Get("/r", h)

	var stop atomic.Bool
	var wg sync.WaitGroup
	wg.Add(1)
	go func() {
		defer wg.Done()
		for !stop.Load() {
			r.Post("/r", h)
			r.Remove("/r", http.MethodPost)
		}
	}()

	var torn atomic.Value
	for g := 0; g < 4; g++ {
		wg.Add(1)
		go func() {
			defer wg.Done()
			for !stop.Load() {
				req := httptest.NewRequest(http.MethodOptions, "/r", nil)
				req.Header.Set("Origin", "https://example.com")
				req.Header.Set("Access-Control-Request-Method", http.MethodPost)
				w := httptest.NewRecorder()
				r.ServeHTTP(w, req)
				acam := w.Header().Get("Access-Control-Allow-Methods")
				acao := w.Header().Get("Access-Control-Allow-Origin")
				if acam != "" && !strings.Contains(acam, "POST") {
					torn.Store("preflight for POST granted (Allow-Origin=" + acao + ") with Access-Control-Allow-Methods=" + acam)
					stop.Store(true)
				}
			}
		}()
	}
	deadline := time.After(20 * time.Second)
	tick := time.NewTicker(10 * time.Millisecond)
	defer tick.Stop()
loop:
	for {
		select {
		case <-deadline:
			break loop
		case <-tick.C:
			if stop.Load() {
				break loop
			}
		}
	}
	stop.Store(true)
	wg.Wait()
	if v := torn.Load(); v != nil {
		t.Error(v)
	}
}
