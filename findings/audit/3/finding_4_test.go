package mux

import (
	"net/http"
	"net/http/httptest"
	"testing"

	"github.com/issue9/mux/v9/types"
)

// C06: "routes that are never touched keep being served with their own handler and parameters".
//
// Same root cause as finding 1 (longestPrefix() treats an inner '{' of a parameter as a legal split
// position), seen from the serving side: registering a sibling whose rule differs only inside nested
// braces splits the node of the untouched route in the middle of its parameter.
//   - /{id:x{2}} (serves /x{2}) is turned into the literal "{id:x" followed by a parameter named "2"
//     when /{id:x{4}} is registered: /x{2} becomes 404 and strict URL building for the untouched route fails;
//   - when the second half does not parse ("{}}"), the registration is rejected but the untouched
//     route has already been unlinked from the tree and is gone.
func TestFinding4_NestedBraceSplitBreaksUntouchedRoute(t *testing.T) {
	call := func(w http.ResponseWriter, r *http.Request, ps types.Route, h http.Handler) {
		ps.Params().Range(func(k, v string) { w.Header().Set("P-"+k, v) })
		h.ServeHTTP(w, r)
	}
	b := func(n types.Node) http.Handler {
		return http.HandlerFunc(func(w http.ResponseWriter, r *http.Request) { w.Header().Set("Allow", n.AllowHeader()) })
	}
	mk := func(name string) http.Handler {
		return http.HandlerFunc(func(w http.ResponseWriter, _ *http.Request) { w.Header().Set("X-H", name) })
	}
	get := func(r *Router[http.Handler], path string) (int, string) {
		w := httptest.NewRecorder()
		r.ServeHTTP(w, httptest.NewRequest(http.MethodGet, "http://localhost"+path, nil))
		return w.Code, w.Header().Get("X-H")
	}

	t.Run("accepted sibling", func(t *testing.T) {
		r := NewRouter[http.Handler]("c06", call, http.NotFoundHandler(), b, b, WithLock(true))
		r.Get("/{id:x{2}}", mk("two"))
		if code, h := get(r, "/x{2}"); code != 200 || h != "two" {
			t.Fatalf("precondition: %d %q", code, h)
		}
		if _, err := r.URL(true, "/{id:x{2}}", map[string]string{"id": "x{2"}); err != nil {
			t.Fatalf("precondition URL: %v", err)
		}

		r.Get("/{id:x{4}}", mk("four")) // another route

		if code, h := get(r, "/x{2}"); code != 200 || h != "two" {
			t.Errorf("untouched route /{id:x{2}}: GET /x{2} = %d handler=%q after registering /{id:x{4}}, want 200 two", code, h)
		}
		if _, err := r.URL(true, "/{id:x{2}}", map[string]string{"id": "x{2"}); err != nil {
			t.Errorf("untouched route /{id:x{2}}: strict URL now fails: %v", err)
		}
	})

	t.Run("rejected sibling", func(t *testing.T) {
		r := NewRouter[http.Handler]("c06", call, http.NotFoundHandler(), b, b, WithLock(true))
		r.Get("/{a:x{}}", mk("one"))
		if code, h := get(r, "/x{}"); code != 200 || h != "one" {
			t.Fatalf("precondition: %d %q", code, h)
		}
		func() {
			defer func() { _ = recover() }()
			r.Get("/{a:x{1}}", mk("other")) // panics with a syntax error
		}()
		if code, h := get(r, "/x{}"); code != 200 || h != "one" {
			t.Errorf("untouched route /{a:x{}}: GET /x{} = %d handler=%q after a rejected Handle of another pattern, want 200 one", code, h)
		}
	})
}
