package mux

import (
	"net/http"
	"runtime"
	"testing"

	"github.com/issue9/mux/v9/types"
)

// C05: "Handle on any pattern either registers it or panics with an error value ..., agreeing with
// CheckSyntax whenever no interceptor rules are involved."
//
// No interceptor is registered. CheckSyntax accepts both patterns, each of them registers fine on an
// empty router and they are not ambiguous with each other, yet Handle of the second one panics with a
// *syntax* error ("无效的语法：{}}") when the first one is already in the table - Handle disagrees with
// CheckSyntax depending on the history. (The failed call additionally drops the first route from the tree.)
func TestFinding1_HandleDisagreesWithCheckSyntax(t *testing.T) {
	newRouter := func() *Router[http.Handler] {
		call := func(w http.ResponseWriter, r *http.Request, _ types.Route, h http.Handler) { h.ServeHTTP(w, r) }
		b := func(n types.Node) http.Handler {
			return http.HandlerFunc(func(w http.ResponseWriter, r *http.Request) { w.Header().Set("Allow", n.AllowHeader()) })
		}
		return NewRouter[http.Handler]("c05", call, http.NotFoundHandler(), b, b)
	}
	h := http.HandlerFunc(func(http.ResponseWriter, *http.Request) {})
	try := func(f func()) (rec any) {
		defer func() { rec = recover() }()
		f()
		return nil
	}

	for _, pair := range [][2]string{
		{"/{a:x{}}", "/{a:x{1}}"},
		{"/{{}", "/{{:}a"},
	} {
		p1, p2 := pair[0], pair[1]
		for _, p := range pair {
			if err := CheckSyntax(p); err != nil {
				t.Fatalf("precondition: CheckSyntax(%q) = %v", p, err)
			}
			if rec := try(func() { newRouter().Get(p, h) }); rec != nil {
				t.Fatalf("precondition: %q alone must register, got %v", p, rec)
			}
		}

		r := newRouter()
		r.Get(p1, h)
		rec := try(func() { r.Get(p2, h) })
		if _, rt := rec.(runtime.Error); rt {
			t.Errorf("runtime fault: %v", rec)
		}
		if rec != nil {
			t.Errorf("CheckSyntax(%q) == nil and the pattern is neither ambiguous nor duplicated, but Handle panicked: %v", p2, rec)
			if _, found := r.Routes()[p1]; !found {
				t.Errorf("  and the rejected Handle removed the existing route %q from the table", p1)
			}
		}
	}
}
