package mux

import (
	"net/http"
	"net/http/httptest"
	"testing"

	"github.com/issue9/mux/v9/types"
)

// C06: "routes that are never touched keep being served with their own handler and parameters"
// for all histories of writers, "including registrations that split and re-merge the nodes of untouched routes".
//
// /{user}/repo is never touched. Registering (and later removing) the sibling route /{user}/settings
// splits its node "{user}/repo" into "{user}/" + "repo". The split is not semantics preserving:
// a named parameter looks for the first occurrence of its suffix ("/repo" before the split, "/" after it)
// and never backtracks into later occurrences when the children fail. The request /a/b/repo, which the
// untouched route served with user="a/b", becomes 404 - while the other route is registered and also
// after it has been removed again (identical route table, different answer).
func TestFinding3_SplitChangesUntouchedRoute(t *testing.T) {
	call := func(w http.ResponseWriter, r *http.Request, ps types.Route, h http.Handler) {
		ps.Params().Range(func(k, v string) { w.Header().Set("P-"+k, v) })
		h.ServeHTTP(w, r)
	}
	b := func(n types.Node) http.Handler {
		return http.HandlerFunc(func(w http.ResponseWriter, r *http.Request) { w.Header().Set("Allow", n.AllowHeader()) })
	}
	mk := func(name string) http.Handler {
		return http.HandlerFunc(func(w http.ResponseWriter, _ *http.Request) { w.Header().Set("X-H", name) })
	}
	r := NewRouter[http.Handler]("c06", call, http.NotFoundHandler(), b, b, WithLock(true))
	r.Get("/{user}/repo", mk("repo"))

	serve := func() (int, string, string) {
		w := httptest.NewRecorder()
		r.ServeHTTP(w, httptest.NewRequest(http.MethodGet, "/a/b/repo", nil))
		return w.Code, w.Header().Get("X-H"), w.Header().Get("P-user")
	}

	code, h, user := serve()
	if code != 200 || h != "repo" || user != "a/b" {
		t.Fatalf("precondition: got %d %q %q", code, h, user)
	}
	routes0 := len(r.Routes())

	r.Get("/{user}/settings", mk("settings")) // an unrelated route; /a/b/repo does not match it
	if code, h, user := serve(); code != 200 || h != "repo" || user != "a/b" {
		t.Errorf("while /{user}/settings is registered: GET /a/b/repo = %d handler=%q user=%q, want 200 repo a/b", code, h, user)
	}

	r.Remove("/{user}/settings")
	if len(r.Routes()) != routes0 {
		t.Fatalf("route table not restored")
	}
	if code, h, user := serve(); code != 200 || h != "repo" || user != "a/b" {
		t.Errorf("after /{user}/settings was removed again: GET /a/b/repo = %d handler=%q user=%q, want 200 repo a/b", code, h, user)
	}
}
