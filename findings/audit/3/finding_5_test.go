package mux

import (
	"net/http"
	"net/http/httptest"
	"testing"

	"github.com/issue9/mux/v9/types"
)

// C06: "routes that are never touched keep being served with their own handler and parameters - never a
// ... foreign handler", for all histories of the writers.
//
// The order in which sibling nodes are tried depends on node.priority(), which contains
// "has no children" - but siblings are only re-sorted when a new child is appended to the same parent.
// Node "{id:\\d+}/" is sorted while it is still a leaf and gets its child afterwards, so the order of the
// two untouched routes below is silently wrong until ANY unrelated registration under "/" re-sorts them.
// Registering and removing the unrelated route /zzz therefore moves the request /5/edit from one
// untouched route's handler to another one's: two identical route tables answer differently.
func TestFinding5_UnrelatedToggleSwitchesHandler(t *testing.T) {
	call := func(w http.ResponseWriter, r *http.Request, ps types.Route, h http.Handler) {
		ps.Params().Range(func(k, v string) { w.Header().Set("P-"+k, v) })
		h.ServeHTTP(w, r)
	}
	b := func(n types.Node) http.Handler {
		return http.HandlerFunc(func(w http.ResponseWriter, r *http.Request) { w.Header().Set("Allow", n.AllowHeader()) })
	}
	mk := func(name string) http.Handler {
		return http.HandlerFunc(func(w http.ResponseWriter, _ *http.Request) { w.Header().Set("X-H", name) })
	}
	r := NewRouter[http.Handler]("c06", call, http.NotFoundHandler(), b, b, WithLock(true))
	r.Get("/{path:.*}", mk("catch-all"))
	r.Get("/{id:\\d+}/{action}", mk("action"))

	serve := func() string {
		w := httptest.NewRecorder()
		r.ServeHTTP(w, httptest.NewRequest(http.MethodGet, "/5/edit", nil))
		return w.Header().Get("X-H")
	}

	before := serve()
	r.Post("/zzz", mk("unrelated"))
	during := serve()
	r.Remove("/zzz")
	after := serve()

	if before != during || before != after {
		t.Errorf("GET /5/edit (only untouched routes match it): handler %q before, %q while and %q after the unrelated route /zzz was toggled", before, during, after)
	}
}
