package mux

// C14 finding 1: Hosts.Delete leaves the split shape of a parameterised domain behind,
// so the remaining domain no longer resolves as "the patterns currently registered" prescribe.

import (
	"net/http"
	"net/http/httptest"
	"reflect"
	"testing"

	"github.com/issue9/mux/v9/types"
)

func f1Match(h *Hosts, host string) (bool, map[string]string) {
	r := httptest.NewRequest(http.MethodGet, "/", nil)
	r.Host = host
	ctx := types.NewContext()
	ok := h.Match(r, ctx)
	ps := map[string]string{}
	ctx.Range(func(k, v string) { ps[k] = v })
	return ok, ps
}

func TestFinding1_HostsDeleteLeavesSplitParamNode(t *testing.T) {
	// reference: the only registered domain is {sub}.example.com
	fresh := NewHosts(false, "{sub}.example.com")
	okF, psF := f1Match(fresh, "a.example.x.example.com")
	if !okF || psF["sub"] != "a.example.x" {
		t.Fatalf("precondition: fresh Hosts should accept with sub=a.example.x, got %v %v", okF, psF)
	}

	// same final set of domains, reached through Add + Delete
	h := NewHosts(false, "{sub}.example.com", "{sub}.example.org")
	h.Delete("{sub}.example.org")
	ok, ps := f1Match(h, "a.example.x.example.com")
	if ok != okF || !reflect.DeepEqual(ps, psF) {
		t.Errorf("after Add/Delete history: got %v %v, want %v %v (same registered domains)", ok, ps, okF, psF)
	}

}
