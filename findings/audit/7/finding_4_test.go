package mux

// C13 finding 4: the matcher is stored on the Router, not in the Group.
// Adding the same router to a second group replaces the matcher the first group dispatches with.

import (
	"fmt"
	"net/http"
	"net/http/httptest"
	"testing"

	"github.com/issue9/mux/v9/types"
)

type f4H struct{ id string }

func f4Call(w http.ResponseWriter, r *http.Request, ctx types.Route, h *f4H) {
	fmt.Fprintf(w, "%s@%s", h.id, ctx.RouterName())
}

func f4B(id string) types.BuildNodeHandler[*f4H] {
	return func(types.Node) *f4H { return &f4H{id: id} }
}

func TestFinding4_SharedRouterMatcherOverwritten(t *testing.T) {
	g1 := NewGroup[*f4H](f4Call, &f4H{id: "g1-notfound"}, f4B("405"), f4B("opt"))
	g2 := NewGroup[*f4H](f4Call, &f4H{id: "g2-notfound"}, f4B("405"), f4B("opt"))

	r := NewRouter[*f4H]("r", f4Call, &f4H{id: "r-notfound"}, f4B("405"), f4B("opt"))
	r.Get("/x", &f4H{id: "r:/x"})
	fallback := NewRouter[*f4H]("fallback", f4Call, &f4H{id: "fb-notfound"}, f4B("405"), f4B("opt"))
	fallback.Get("/x", &f4H{id: "fallback:/x"})

	g1.Add(NewHosts(false, "a.com"), r)
	g1.Add(nil, fallback)

	serve := func(host string) string {
		req := httptest.NewRequest(http.MethodGet, "/x", nil)
		req.Host = host
		w := httptest.NewRecorder()
		g1.ServeHTTP(w, req)
		return w.Body.String()
	}

	if got := serve("a.com"); got != "r:/x@r" {
		t.Fatalf("precondition: got %s", got)
	}
	if got := serve("b.com"); got != "fallback:/x@fallback" {
		t.Fatalf("precondition: got %s", got)
	}

	// no operation on g1 from here on
	g2.Add(NewHosts(false, "b.com"), r)

	if got := serve("a.com"); got != "r:/x@r" {
		t.Errorf("g1: a.com/x must still be served by r (first router whose matcher Hosts(a.com) accepts), got %s", got)
	}
	if got := serve("b.com"); got != "fallback:/x@fallback" {
		t.Errorf("g1: b.com/x must still be served by fallback (Hosts(a.com) rejects), got %s", got)
	}
}
