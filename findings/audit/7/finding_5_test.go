package mux

// C13 finding 5: a parameter captured by the matcher is deleted by the router's
// backtracking when a route parameter has the same name.

import (
	"fmt"
	"net/http"
	"net/http/httptest"
	"testing"

	"github.com/issue9/mux/v9/types"
)

type f5H struct{ id string }

func f5Call(w http.ResponseWriter, r *http.Request, ctx types.Route, h *f5H) {
	v, found := ctx.Params().Get("id")
	fmt.Fprintf(w, "%s path=%s id=%q found=%v", h.id, r.URL.Path, v, found)
}

func f5B(id string) types.BuildNodeHandler[*f5H] {
	return func(types.Node) *f5H { return &f5H{id: id} }
}

func TestFinding5_MatcherParamDeletedByRouterBacktracking(t *testing.T) {
	g := NewGroup[*f5H](f5Call, &f5H{id: "notfound"}, f5B("405"), f5B("opt"))
	r := g.New("r", NewPathVersion("id", "v1"))
	r.Get("/p/{id}/z/a", &f5H{id: "a"})
	r.Get("/p/{id}/z/b", &f5H{id: "b"})

	serve := func(p string) string {
		w := httptest.NewRecorder()
		g.ServeHTTP(w, httptest.NewRequest(http.MethodGet, p, nil))
		return w.Body.String()
	}

	// router alone answers 404 for /q and for /p/5/z/c, the matcher captured id=/v1 in both cases
	if got, want := serve("/v1/q"), `notfound path=/q id="/v1" found=true`; got != want {
		t.Fatalf("precondition: got %s want %s", got, want)
	}
	if got, want := serve("/v1/p/5/z/c"), `notfound path=/p/5/z/c id="/v1" found=true`; got != want {
		t.Errorf("got %s\nwant %s", got, want)
	}
}
