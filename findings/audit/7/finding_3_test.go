package mux

// C14 finding 3: Host "*" (and "*:port") never resolves, whatever is registered,
// because Tree.Handler short-circuits the path "*" to the root node.

import (
	"net/http"
	"net/http/httptest"
	"testing"

	"github.com/issue9/mux/v9/types"
)

func f3Match(h *Hosts, host string) (bool, map[string]string) {
	r := httptest.NewRequest(http.MethodGet, "/", nil)
	r.Host = host
	ctx := types.NewContext()
	ok := h.Match(r, ctx)
	ps := map[string]string{}
	ctx.Range(func(k, v string) { ps[k] = v })
	return ok, ps
}

func TestFinding3_HostStarNeverResolves(t *testing.T) {
	h := NewHosts(false, "{any}")
	if ok, ps := f3Match(h, "x"); !ok || ps["any"] != "x" {
		t.Fatalf("precondition: {any} accepts x, got %v %v", ok, ps)
	}
	if ok, ps := f3Match(h, "*"); !ok || ps["any"] != "*" {
		t.Errorf("{any} must accept host * with any=*, got %v %v", ok, ps)
	}
	if ok, ps := f3Match(h, "*:8080"); !ok || ps["any"] != "*" {
		t.Errorf("{any} must accept host *:8080 with any=*, got %v %v", ok, ps)
	}

	h = NewHosts(false, "*", "*.example.com")
	if ok, _ := f3Match(h, "*.example.com"); !ok {
		t.Fatalf("precondition: literal domain *.example.com accepts host *.example.com")
	}
	if ok, _ := f3Match(h, "*"); !ok {
		t.Errorf("literal domain * is registered, host * must be accepted")
	}
}
