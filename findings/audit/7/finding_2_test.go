package mux

// C14 finding 2: Hosts.Add lower-cases the whole pattern, including the regexp rule,
// the interceptor name and the parameter name inside {...}.

import (
	"net/http"
	"net/http/httptest"
	"testing"

	"github.com/issue9/mux/v9/types"
)

func f2Match(h *Hosts, host string) (bool, map[string]string) {
	r := httptest.NewRequest(http.MethodGet, "/", nil)
	r.Host = host
	ctx := types.NewContext()
	ok := h.Match(r, ctx)
	ps := map[string]string{}
	ctx.Range(func(k, v string) { ps[k] = v })
	return ok, ps
}

func TestFinding2_HostsAddLowerCasesRuleAndNames(t *testing.T) {
	// \D+ (non digits) is turned into \d+ (digits)
	h := NewHosts(false, `{sub:\D+}.example.com`)
	if ok, ps := f2Match(h, "abc.example.com"); !ok || ps["sub"] != "abc" {
		t.Errorf(`{sub:\D+}.example.com must accept abc.example.com with sub=abc, got %v %v`, ok, ps)
	}
	if ok, ps := f2Match(h, "123.example.com"); ok {
		t.Errorf(`{sub:\D+}.example.com must reject 123.example.com, got %v %v`, ok, ps)
	}

	// the same rule on a router behaves as written
	r := NewRouter[http.Handler]("r", func(w http.ResponseWriter, r *http.Request, _ types.Route, h http.Handler) { h.ServeHTTP(w, r) },
		http.NotFoundHandler(), func(types.Node) http.Handler { return http.NotFoundHandler() }, func(types.Node) http.Handler { return http.NotFoundHandler() })
	r.Get(`{sub:\D+}.example.com`, http.HandlerFunc(func(w http.ResponseWriter, r *http.Request) { w.WriteHeader(201) }))
	w := httptest.NewRecorder()
	req := httptest.NewRequest(http.MethodGet, "/", nil)
	req.URL.Path = "abc.example.com"
	r.ServeHTTP(w, req)
	if w.Code != 201 {
		t.Fatalf("precondition: router resolves the same pattern, got %d", w.Code)
	}

	// interceptor registered under a mixed-case name is never found
	h = NewHosts(false)
	h.RegisterInterceptor(func(s string) bool { return s == "abc" }, "isABC")
	h.Add("{sub:isABC}.example.com")
	if ok, ps := f2Match(h, "abc.example.com"); !ok || ps["sub"] != "abc" {
		t.Errorf("{sub:isABC}.example.com must accept abc.example.com through the interceptor, got %v %v", ok, ps)
	}
	if ok, _ := f2Match(h, "isabc.example.com"); ok {
		t.Errorf("{sub:isABC}.example.com must reject isabc.example.com (interceptor only accepts abc)")
	}

	// parameter name is reported lower-cased
	h = NewHosts(false, "{Sub}.example.com")
	if ok, ps := f2Match(h, "abc.example.com"); !ok || ps["Sub"] != "abc" {
		t.Errorf("{Sub}.example.com must report parameter Sub=abc, got %v %v", ok, ps)
	}
}
