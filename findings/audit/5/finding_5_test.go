package mux

import (
	"net/http"
	"regexp"
	"testing"

	"github.com/issue9/mux/v9/types"
)

// C10, strict mode: URL building fails iff … a value does not satisfy "its parameter's
// constraint over its whole length".
//
// Segment.Valid runs the *unanchored leftmost-first* regexp over value+suffix and then compares
// the end of that one match with the end of the string. With alternations whose earlier branch
// is a prefix of a later one, Go returns the shorter match, so a value that satisfies the
// constraint over its whole length is rejected.
func TestFinding5_StrictRejectsValueThatFullyMatches(t *testing.T) {
	call := func(w http.ResponseWriter, r *http.Request, _ types.Route, h http.Handler) { h.ServeHTTP(w, r) }
	b := func(types.Node) http.Handler { return http.NotFoundHandler() }
	h := http.HandlerFunc(func(http.ResponseWriter, *http.Request) {})
	r := NewRouter[http.Handler]("def", call, http.NotFoundHandler(), b, b)

	for _, c := range []struct{ rule, value string }{
		{`a|ab`, "ab"},
		{`\d|\d\d`, "42"},
		{`v1|v10`, "v10"},
	} {
		if !regexp.MustCompile(`^(?:` + c.rule + `)$`).MatchString(c.value) {
			t.Fatalf("premise: %q must satisfy %q over its whole length", c.value, c.rule)
		}
		pattern := "/" + c.value + "/{id:" + c.rule + "}"
		r.Get(pattern, h)
		want := "/" + c.value + "/" + c.value
		if u, err := r.URL(false, pattern, map[string]string{"id": c.value}); err != nil || u != want {
			t.Errorf("non-strict: %q %v", u, err)
		}
		if u, err := r.URL(true, pattern, map[string]string{"id": c.value}); err != nil || u != want {
			t.Errorf("strict URL(%q, id=%q) = %q, %v; want %q, <nil>", pattern, c.value, u, err, want)
		}
	}
}
