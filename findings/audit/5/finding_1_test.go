package mux

import (
	"net/http"
	"testing"

	"github.com/issue9/mux/v9/types"
)

// C10: Router.URL / Prefix.URL / Resource.URL in non-strict mode parse the pattern with the
// package-level empty interceptor table instead of the router's own one. A pattern that is
// perfectly well-formed for this router (an interceptor parameter) is then re-interpreted as
// a regexp parameter and URL building fails although the pattern is not malformed and no
// parameter is missing.
func TestFinding1_NonStrictURLIgnoresRouterInterceptors(t *testing.T) {
	call := func(w http.ResponseWriter, r *http.Request, _ types.Route, h http.Handler) { h.ServeHTTP(w, r) }
	b := func(types.Node) http.Handler { return http.NotFoundHandler() }
	h := http.HandlerFunc(func(http.ResponseWriter, *http.Request) {})

	r := NewRouter[http.Handler]("def", call, http.NotFoundHandler(), b, b,
		WithDigitInterceptor("digit"), WithAnyInterceptor("*"))
	r.Get("/posts/{post-id:digit}/author", h) // accepted: live route
	r.Get("/files/{path:*}", h)               // accepted: live route

	for _, c := range []struct {
		pattern string
		ps      map[string]string
		want    string
	}{
		{"/posts/{post-id:digit}/author", map[string]string{"post-id": "5"}, "/posts/5/author"},
		{"/files/{path:*}", map[string]string{"path": "a/b.txt"}, "/files/a/b.txt"},
	} {
		// strict mode (which does use the router's table) succeeds ...
		if u, err := r.URL(true, c.pattern, c.ps); err != nil || u != c.want {
			t.Errorf("strict URL(%q) = %q, %v; want %q", c.pattern, u, err, c.want)
		}
		// ... non-strict mode must "substitute parameters and nothing else"
		if u, err := r.URL(false, c.pattern, c.ps); err != nil || u != c.want {
			t.Errorf("non-strict URL(%q) = %q, %v; want %q, <nil>", c.pattern, u, err, c.want)
		}
	}

	res := r.Resource("/files/{path:*}")
	if u, err := res.URL(false, map[string]string{"path": "x"}); err != nil || u != "/files/x" {
		t.Errorf("Resource.URL = %q, %v; want /files/x", u, err)
	}
	p := r.Prefix("/posts")
	if u, err := p.URL(false, "/{post-id:digit}/author", map[string]string{"post-id": "5"}); err != nil || u != "/posts/5/author" {
		t.Errorf("Prefix.URL = %q, %v; want /posts/5/author", u, err)
	}
}
