package mux

import (
	"net/http"
	"net/http/httptest"
	"strings"
	"testing"

	"github.com/issue9/mux/v9/types"
)

// C09: "every middleware factory is invoked exactly once per wrapped handler" and the onion
// consists of each Use middleware once.
//
// Group.Add unconditionally re-applies *all* group middlewares to the router. A router that is
// taken out of the group with Group.Remove and added again (for instance to change its matcher
// or its position) gets every Group.Use middleware a second time on every handler.
func TestFinding6_GroupReAddAppliesGroupMiddlewaresTwice(t *testing.T) {
	var trace []string
	calls := map[string]int{}
	mid := func(tag string) types.Middleware[http.Handler] {
		return types.MiddlewareFunc[http.Handler](func(next http.Handler, method, pattern, router string) http.Handler {
			calls[tag+" "+method+" "+pattern+" "+router]++
			return http.HandlerFunc(func(w http.ResponseWriter, r *http.Request) {
				trace = append(trace, tag)
				next.ServeHTTP(w, r)
			})
		})
	}
	call := func(w http.ResponseWriter, r *http.Request, _ types.Route, h http.Handler) { h.ServeHTTP(w, r) }
	b := func(types.Node) http.Handler { return http.NotFoundHandler() }
	h := http.HandlerFunc(func(http.ResponseWriter, *http.Request) { trace = append(trace, "h") })

	g := NewGroup[http.Handler](call, http.NotFoundHandler(), b, b)
	g.Use(mid("G"))
	r := g.New("r", nil)
	r.Get("/a", h)

	g.Remove("r")
	g.Add(nil, r) // e.g. re-insert with another matcher

	trace = nil
	g.ServeHTTP(httptest.NewRecorder(), httptest.NewRequest(http.MethodGet, "http://localhost/a", nil))
	if got := strings.Join(trace, ","); got != "G,h" {
		t.Errorf("onion for GET /a = %s; want G,h", got)
	}
	if n := calls["G GET /a r"]; n != 1 {
		t.Errorf("factory G invoked %d times for GET /a of router r; want exactly once", n)
	}
}
