package mux

import (
	"net/http"
	"net/http/httptest"
	"testing"

	"github.com/issue9/mux/v9/types"
)

// C10: "for every request dispatched to a route without '-' parameters, building that route's
// pattern from the captured parameters reproduces the request path."
//
// A named/interceptor parameter whose literal suffix happens to end in '}' is wrongly flagged
// as an "endpoint" (match-everything) parameter: the matcher swallows the whole rest of the
// path and ignores the literal suffix, while URL building (correctly) appends the suffix.
func TestFinding2_BraceInSuffixMakesEndpoint(t *testing.T) {
	const pattern = "/x/{id}/a}"
	if err := CheckSyntax(pattern); err != nil {
		t.Skip("pattern rejected:", err)
	}

	var gotPattern string
	var gotParams map[string]string
	call := func(w http.ResponseWriter, r *http.Request, rt types.Route, h http.Handler) {
		if rt.Node() != nil {
			gotPattern = rt.Node().Pattern()
		}
		gotParams = map[string]string{}
		rt.Params().Range(func(k, v string) { gotParams[k] = v })
		h.ServeHTTP(w, r)
	}
	b := func(types.Node) http.Handler { return http.NotFoundHandler() }
	ok := http.HandlerFunc(func(w http.ResponseWriter, _ *http.Request) { w.WriteHeader(299) })
	r := NewRouter[http.Handler]("def", call, http.NotFoundHandler(), b, b)
	r.Get(pattern, ok)

	for _, path := range []string{"/x/5", "/x/5/a}", "/x/5/zzz"} {
		gotPattern, gotParams = "", nil
		w := httptest.NewRecorder()
		req := httptest.NewRequest(http.MethodGet, "http://localhost/", nil)
		req.URL.Path = path
		r.ServeHTTP(w, req)
		if w.Code != 299 {
			continue // not dispatched to the route: nothing to invert
		}
		for _, strict := range []bool{false, true} {
			u, err := r.URL(strict, gotPattern, gotParams)
			if err != nil || u != path {
				t.Errorf("request %q dispatched to %q with %v, but URL(strict=%v) = %q, %v", path, gotPattern, gotParams, strict, u, err)
			}
		}
	}
}
