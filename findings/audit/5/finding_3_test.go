package mux

import (
	"net/http"
	"net/http/httptest"
	"regexp"
	"testing"

	"github.com/issue9/mux/v9/types"
)

// C10: "it fails iff the pattern is malformed (… uncompilable regexp) or a parameter is missing"
// and "building that route's pattern from the captured parameters reproduces the request path".
//
// The rule of a regexp parameter is never compiled on its own, only after being pasted into
// "(?P<name>" + rule + ")" + suffix. A rule that is not a valid regexp but contains
// unbalanced parentheses escapes from the capture group: the pattern is accepted, routes
// registered with it capture only part of what they consume, and the round trip breaks.
func TestFinding3_RegexpRuleEscapesItsGroup(t *testing.T) {
	const rule = `a)(b`
	if _, err := regexp.Compile(rule); err == nil {
		t.Fatal("test premise: rule must be uncompilable")
	}
	pattern := "/{id:" + rule + "}"

	// (a) an uncompilable regexp is a documented syntax error: URL must fail
	if u, err := URL(pattern, map[string]string{"id": "1"}); err == nil {
		t.Errorf("URL(%q) = %q, <nil>; want an error: the rule %q is not a compilable regexp", pattern, u, rule)
	}
	if err := CheckSyntax(pattern); err == nil {
		t.Errorf("CheckSyntax(%q) = <nil>; want an error", pattern)
	}

	// (b) and because it is accepted, dispatch and URL building disagree
	var gotParams map[string]string
	call := func(w http.ResponseWriter, r *http.Request, rt types.Route, h http.Handler) {
		gotParams = map[string]string{}
		rt.Params().Range(func(k, v string) { gotParams[k] = v })
		h.ServeHTTP(w, r)
	}
	b := func(types.Node) http.Handler { return http.NotFoundHandler() }
	ok := http.HandlerFunc(func(w http.ResponseWriter, _ *http.Request) { w.WriteHeader(299) })
	r := NewRouter[http.Handler]("def", call, http.NotFoundHandler(), b, b)
	func() {
		defer func() { recover() }()
		r.Get(pattern, ok)
	}()
	w := httptest.NewRecorder()
	r.ServeHTTP(w, httptest.NewRequest(http.MethodGet, "http://localhost/ab", nil))
	if w.Code == 299 {
		for _, strict := range []bool{false, true} {
			if u, err := r.URL(strict, pattern, gotParams); err != nil || u != "/ab" {
				t.Errorf("GET /ab dispatched to %q with %v, but URL(strict=%v) = %q, %v", pattern, gotParams, strict, u, err)
			}
		}
	}

	// (c) strict mode accepts a value the route can never match: {id:\d+)|(.*}
	r2 := NewRouter[http.Handler]("def", call, http.NotFoundHandler(), b, b)
	p2 := `/n/{id:\d+)|(.*}`
	func() {
		defer func() { recover() }()
		r2.Get(p2, ok)
	}()
	if u, err := r2.URL(true, p2, map[string]string{"id": "not-a-number"}); err == nil {
		w := httptest.NewRecorder()
		r2.ServeHTTP(w, httptest.NewRequest(http.MethodGet, "http://localhost"+u, nil))
		if w.Code != 299 {
			t.Errorf("strict URL(%q, id=not-a-number) = %q accepted, but GET %s is answered %d", p2, u, u, w.Code)
		}
	}
}
