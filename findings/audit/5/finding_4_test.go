package mux

import "testing"

// C10: "for any pattern and non-empty params the result is … the pattern with each {name...}
// token replaced by params[name] … and it fails iff the pattern is malformed or a parameter is
// missing".
//
// The parameter name is pasted unquoted into a Go named capture group "(?P<name>rule)". Names
// that are fine for named and interceptor parameters (e.g. "post-id", "user.id") make the
// very same pattern fail as soon as the parameter carries a regexp rule, although the rule
// compiles, the name is not empty and the value is supplied.
func TestFinding4_ParamNameNotUsableAsRegexpGroupName(t *testing.T) {
	for _, name := range []string{"post-id", "user.id", "a b"} {
		ps := map[string]string{name: "5"}

		// control: same name, no rule
		if u, err := URL("/p/{"+name+"}/x", ps); err != nil || u != "/p/5/x" {
			t.Fatalf("control failed: %q %v", u, err)
		}

		pattern := "/p/{" + name + ":\\d+}/x"
		if u, err := URL(pattern, ps); err != nil || u != "/p/5/x" {
			t.Errorf("URL(%q, %v) = %q, %v; want /p/5/x, <nil>", pattern, ps, u, err)
		}
		if err := CheckSyntax(pattern); err != nil {
			t.Errorf("CheckSyntax(%q) = %v", pattern, err)
		}
	}
}
