package mux

import (
	"strings"
	"testing"
)

// C10 (minor): "it fails iff the pattern is malformed or a parameter is missing".
// URL building goes through syntax.NewSegment, which refuses any segment longer than
// math.MaxInt16 bytes - a size limit of the routing tree that has nothing to do with
// substituting parameters into a string.
func TestFinding7_LongLiteralMakesURLFail(t *testing.T) {
	lit := "/" + strings.Repeat("a", 40000) + "/"
	u, err := URL(lit+"{id}", map[string]string{"id": "5"})
	if err != nil || u != lit+"5" {
		t.Errorf("URL(<40k literal>{id}) failed: len=%d err=%v", len(u), err)
	}
}
