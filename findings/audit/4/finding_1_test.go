package mux

// Finding 1 (C08): HEAD does not produce the same status as GET when the
// handler's first Write (implicit 200) is followed by something that tries to
// set another status: the HEAD wrapper swallows Write without committing the
// header, so a later WriteHeader wins on HEAD but is ignored on GET.

import (
	"net/http"
	"net/http/httptest"
	"testing"

	"github.com/issue9/mux/v9/types"
)

func f1Router(o ...Option) *Router[http.Handler] {
	call := func(w http.ResponseWriter, r *http.Request, _ types.Route, h http.Handler) { h.ServeHTTP(w, r) }
	mna := func(n types.Node) http.Handler {
		return http.HandlerFunc(func(w http.ResponseWriter, _ *http.Request) {
			w.Header().Set("Allow", n.AllowHeader())
			w.WriteHeader(http.StatusMethodNotAllowed)
		})
	}
	opt := func(n types.Node) http.Handler {
		return http.HandlerFunc(func(w http.ResponseWriter, _ *http.Request) { w.Header().Set("Allow", n.AllowHeader()) })
	}
	return NewRouter[http.Handler]("f1", call, http.NotFoundHandler(), mna, opt, o...)
}

func f1Status(t *testing.T, h http.Handler, method string) int {
	t.Helper()
	srv := httptest.NewServer(h)
	defer srv.Close()
	req, err := http.NewRequest(method, srv.URL+"/a", nil)
	if err != nil {
		t.Fatal(err)
	}
	resp, err := http.DefaultClient.Do(req)
	if err != nil {
		t.Fatal(err)
	}
	resp.Body.Close()
	return resp.StatusCode
}

// Write (implicit 200), then WriteHeader(500): GET answers 200, HEAD answers 500.
func TestFinding1_HeadStatusDiffersAfterImplicitHeader(t *testing.T) {
	r := f1Router()
	r.Get("/a", http.HandlerFunc(func(w http.ResponseWriter, _ *http.Request) {
		w.Write([]byte("hello")) // no explicit WriteHeader: status is 200 from here on
		w.WriteHeader(http.StatusInternalServerError)
	}))

	get, head := f1Status(t, r, http.MethodGet), f1Status(t, r, http.MethodHead)
	if get != head {
		t.Errorf("GET status %d, HEAD status %d: HEAD must produce the same status as GET", get, head)
	}

	// same thing without a network, observing the underlying ResponseWriter directly
	recG, recH := httptest.NewRecorder(), httptest.NewRecorder()
	r.ServeHTTP(recG, httptest.NewRequest(http.MethodGet, "/a", nil))
	r.ServeHTTP(recH, httptest.NewRequest(http.MethodHead, "/a", nil))
	if recG.Code != recH.Code {
		t.Errorf("recorder: GET status %d, HEAD status %d", recG.Code, recH.Code)
	}
}

// Same root cause seen through the library's own recovery option: the handler
// writes and then panics; WithStatusRecovery cannot change the (already sent)
// 200 on GET but does turn the HEAD response into a 500.
func TestFinding1_HeadStatusDiffersWithRecovery(t *testing.T) {
	r := f1Router(WithStatusRecovery(http.StatusInternalServerError))
	r.Get("/a", http.HandlerFunc(func(w http.ResponseWriter, _ *http.Request) {
		w.Write([]byte("partial"))
		panic("boom")
	}))

	recG, recH := httptest.NewRecorder(), httptest.NewRecorder()
	r.ServeHTTP(recG, httptest.NewRequest(http.MethodGet, "/a", nil))
	r.ServeHTTP(recH, httptest.NewRequest(http.MethodHead, "/a", nil))
	if recG.Code != recH.Code {
		t.Errorf("GET status %d, HEAD status %d", recG.Code, recH.Code)
	}
}
