package mux

// Finding 3 (C08): on a real net/http server a GET handler that writes a body
// without setting Content-Type gets a sniffed Content-Type header. The HEAD
// wrapper swallows the bytes before net/http can see them, so the HEAD
// response has no Content-Type at all: same handler, different headers.
// (net/http itself, without the wrapper, sniffs for HEAD too.)

import (
	"net/http"
	"net/http/httptest"
	"testing"

	"github.com/issue9/mux/v9/types"
)

func f3Router() *Router[http.Handler] {
	call := func(w http.ResponseWriter, r *http.Request, _ types.Route, h http.Handler) { h.ServeHTTP(w, r) }
	b := func(n types.Node) http.Handler {
		return http.HandlerFunc(func(w http.ResponseWriter, _ *http.Request) { w.Header().Set("Allow", n.AllowHeader()) })
	}
	return NewRouter[http.Handler]("f3", call, http.NotFoundHandler(), b, b)
}

func TestFinding3_HeadLosesSniffedContentType(t *testing.T) {
	handler := http.HandlerFunc(func(w http.ResponseWriter, _ *http.Request) {
		w.Write([]byte("<html><body>hello</body></html>"))
	})

	r := f3Router()
	r.Get("/a", handler)
	srv := httptest.NewServer(r)
	defer srv.Close()

	do := func(base, method string) http.Header {
		req, _ := http.NewRequest(method, base+"/a", nil)
		resp, err := http.DefaultClient.Do(req)
		if err != nil {
			t.Fatal(err)
		}
		resp.Body.Close()
		return resp.Header
	}

	get, head := do(srv.URL, http.MethodGet), do(srv.URL, http.MethodHead)
	if g, h := get.Get("Content-Type"), head.Get("Content-Type"); g != h {
		t.Errorf("Content-Type: GET %q, HEAD %q - HEAD must produce the same headers as GET", g, h)
	}

	// reference: the same handler served by net/http without the router keeps the header on HEAD
	plain := httptest.NewServer(handler)
	defer plain.Close()
	if g, h := do(plain.URL, http.MethodGet).Get("Content-Type"), do(plain.URL, http.MethodHead).Get("Content-Type"); g != h {
		t.Fatalf("test assumption broken: plain net/http differs too: %q vs %q", g, h)
	}
}
