package mux

// Finding 5 (C07): Groups are not isolated from each other. Group.Add stores
// the matcher in the *Router* (r.matcher), not in the group, so adding a router
// to a second group silently replaces the matcher the first group uses for it:
// what group g1 returns depends on what was done to the distinct instance g2.

import (
	"net/http"
	"net/http/httptest"
	"testing"

	"github.com/issue9/mux/v9/types"
)

func f5Call(w http.ResponseWriter, r *http.Request, _ types.Route, h http.Handler) { h.ServeHTTP(w, r) }

func f5Builder(n types.Node) http.Handler {
	return http.HandlerFunc(func(w http.ResponseWriter, _ *http.Request) { w.Header().Set("Allow", n.AllowHeader()) })
}

func TestFinding5_GroupAddLeaksMatcherIntoOtherGroup(t *testing.T) {
	r := NewRouter[http.Handler]("r", f5Call, http.NotFoundHandler(), f5Builder, f5Builder)
	r.Get("/p", http.HandlerFunc(func(w http.ResponseWriter, _ *http.Request) { w.Write([]byte("ok")) }))

	status := func(g *Group[http.Handler], host string) int {
		rec := httptest.NewRecorder()
		g.ServeHTTP(rec, httptest.NewRequest(http.MethodGet, "http://"+host+"/p", nil))
		return rec.Code
	}

	g1 := NewGroup[http.Handler](f5Call, http.NotFoundHandler(), f5Builder, f5Builder)
	g1.Add(NewHosts(false, "a.example.com"), r)

	beforeA, beforeB := status(g1, "a.example.com"), status(g1, "b.example.com")
	if beforeA != 200 || beforeB != 404 {
		t.Fatalf("unexpected baseline %d %d", beforeA, beforeB)
	}

	// nothing below touches g1
	g2 := NewGroup[http.Handler](f5Call, http.NotFoundHandler(), f5Builder, f5Builder)
	g2.Add(NewHosts(false, "b.example.com"), r)

	if afterA := status(g1, "a.example.com"); afterA != beforeA {
		t.Errorf("g1 GET a.example.com/p: %d before g2.Add, %d after", beforeA, afterA)
	}
	if afterB := status(g1, "b.example.com"); afterB != beforeB {
		t.Errorf("g1 GET b.example.com/p: %d before g2.Add, %d after", beforeB, afterB)
	}
}
