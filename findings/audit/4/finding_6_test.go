package mux

// Finding 6 (C07, borderline scope - a Matcher that is not a Hosts):
// NewPathVersion normalises the version strings by writing into the caller's
// slice and keeps that slice. Two distinct matchers built from the same list
// therefore (a) race when built from two goroutines (go test -race), and
// (b) share their version table with each other and with the caller.

import (
	"net/http/httptest"
	"sync"
	"testing"

	"github.com/issue9/mux/v9/types"
)

// run with -race: write/write race inside NewPathVersion on versions[i]
func TestFinding6_NewPathVersionRacesOnCallerSlice(t *testing.T) {
	versions := []string{"v1", "v2", "v3"}
	var wg sync.WaitGroup
	for i := 0; i < 4; i++ {
		wg.Add(1)
		go func() {
			defer wg.Done()
			for j := 0; j < 100; j++ {
				_ = NewPathVersion("ver", versions...) // two distinct instances being built
			}
		}()
	}
	wg.Wait()
}

// deterministic variant: the argument is modified and stays aliased
func TestFinding6_NewPathVersionAliasesCallerSlice(t *testing.T) {
	versions := []string{"v1"}
	m1 := NewPathVersion("ver", versions...)
	if versions[0] != "v1" {
		t.Errorf("constructor modified its argument: %q", versions[0])
	}

	match := func(m Matcher, path string) bool {
		ctx := types.NewContext()
		defer ctx.Destroy()
		return m.Match(httptest.NewRequest("GET", path, nil), ctx)
	}
	if !match(m1, "/v1/x") {
		t.Fatal("baseline")
	}

	// build a second, unrelated matcher re-using the same backing array
	versions[0] = "v9"
	_ = NewPathVersion("ver", versions...)
	if !match(m1, "/v1/x") {
		t.Errorf("m1 stopped matching /v1/x after another matcher was built from the same slice")
	}
}
