package mux

// Finding 4 (C08, borderline): the HEAD wrapper embeds only the
// http.ResponseWriter interface and has no Unwrap method, so http.Flusher (and
// everything reachable through http.ResponseController) disappears for HEAD
// requests. The usual streaming idiom therefore answers 200 to GET and 500 to
// HEAD - the GET handler does not produce the same status under HEAD.

import (
	"net/http"
	"net/http/httptest"
	"testing"

	"github.com/issue9/mux/v9/types"
)

func f4Router() *Router[http.Handler] {
	call := func(w http.ResponseWriter, r *http.Request, _ types.Route, h http.Handler) { h.ServeHTTP(w, r) }
	b := func(n types.Node) http.Handler {
		return http.HandlerFunc(func(w http.ResponseWriter, _ *http.Request) { w.Header().Set("Allow", n.AllowHeader()) })
	}
	return NewRouter[http.Handler]("f4", call, http.NotFoundHandler(), b, b)
}

func TestFinding4_HeadHidesFlusher(t *testing.T) {
	r := f4Router()
	r.Get("/a", http.HandlerFunc(func(w http.ResponseWriter, _ *http.Request) {
		if _, ok := w.(http.Flusher); !ok { // standard idiom for streaming handlers
			http.Error(w, "streaming unsupported", http.StatusInternalServerError)
			return
		}
		w.Write([]byte("data: 1\n\n"))
	}))
	r.Get("/b", http.HandlerFunc(func(w http.ResponseWriter, _ *http.Request) {
		w.Write([]byte("data: 1\n\n"))
		if err := http.NewResponseController(w).Flush(); err != nil {
			http.Error(w, err.Error(), http.StatusInternalServerError)
		}
	}))

	srv := httptest.NewServer(r)
	defer srv.Close()

	for _, p := range []string{"/a", "/b"} {
		var codes [2]int
		for i, m := range []string{http.MethodGet, http.MethodHead} {
			req, _ := http.NewRequest(m, srv.URL+p, nil)
			resp, err := http.DefaultClient.Do(req)
			if err != nil {
				t.Fatal(err)
			}
			resp.Body.Close()
			codes[i] = resp.StatusCode
		}
		if codes[0] != codes[1] {
			t.Errorf("%s: GET status %d, HEAD status %d", p, codes[0], codes[1])
		}
	}
}
