package mux

// Finding 2 (C08): headers mutated after the first Write are not part of the
// GET response (the header was sent by the first Write) but ARE part of the
// HEAD response, because the HEAD wrapper never commits the header on Write.

import (
	"net/http"
	"net/http/httptest"
	"testing"

	"github.com/issue9/mux/v9/types"
)

func f2Router() *Router[http.Handler] {
	call := func(w http.ResponseWriter, r *http.Request, _ types.Route, h http.Handler) { h.ServeHTTP(w, r) }
	b := func(n types.Node) http.Handler {
		return http.HandlerFunc(func(w http.ResponseWriter, _ *http.Request) { w.Header().Set("Allow", n.AllowHeader()) })
	}
	return NewRouter[http.Handler]("f2", call, http.NotFoundHandler(), b, b)
}

func TestFinding2_HeadLeaksHeadersSetBetweenWrites(t *testing.T) {
	r := f2Router()
	r.Get("/a", http.HandlerFunc(func(w http.ResponseWriter, _ *http.Request) {
		w.Header().Set("Content-Type", "text/plain")
		w.Header().Set("X-Before", "1")
		w.Write([]byte("hello "))
		w.Header().Set("X-Between", "1") // too late for GET
		w.Header().Set("X-Before", "2")  // too late for GET
		w.Header().Del("Content-Type")   // too late for GET
		w.Write([]byte("world"))
	}))

	srv := httptest.NewServer(r)
	defer srv.Close()

	do := func(method string) http.Header {
		req, _ := http.NewRequest(method, srv.URL+"/a", nil)
		resp, err := http.DefaultClient.Do(req)
		if err != nil {
			t.Fatal(err)
		}
		resp.Body.Close()
		return resp.Header
	}
	get, head := do(http.MethodGet), do(http.MethodHead)

	for _, k := range []string{"X-Between", "X-Before", "Content-Type"} {
		if g, h := get.Get(k), head.Get(k); g != h {
			t.Errorf("header %s: GET %q, HEAD %q - HEAD must produce the same headers as GET", k, g, h)
		}
	}
	if head.Get("Content-Length") != "11" {
		t.Errorf("HEAD Content-Length = %q, want 11", head.Get("Content-Length"))
	}
}
