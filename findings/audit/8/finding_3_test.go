package mux

import (
	"net/http"
	"net/url"
	"testing"

	"github.com/issue9/mux/v9/types"
)

// C15: a path-version matcher accepts iff the path begins with '/<version>/', then removes exactly that
// segment and records '/<version>'.
// NewPathVersion refuses "" (panic) but lets "/" through: it already has a leading and a trailing '/', so
// it is stored as the one-byte prefix "/". Every rooted path then "matches", nothing is removed from the
// path and the recorded parameter is "" - which is neither '/<version>' nor a prefix test for '/<version>/'
// under any reading of <version> ("" would require the path to begin with "//", "/" with "///").
// In a Group such a router swallows every request meant for the routers after it.
func TestFinding3_PathVersionSlash(t *testing.T) {
	var m Matcher
	func() {
		defer func() { recover() }() // refusing "/" at construction (like "") is an acceptable repair
		m = NewPathVersion("ver", "/", "v2")
	}()
	if m == nil {
		return
	}

	for _, p := range []string{"/v1/x", "/x", "/", "/v2/x"} {
		r := &http.Request{URL: &url.URL{Path: p}}
		ctx := types.NewContext()
		ok := m.Match(r, ctx)
		v, found := ctx.Get("ver")

		if p == "/v2/x" { // the only listed version that this path begins with is v2
			if !ok || r.URL.Path != "/x" || v != "/v2" {
				t.Errorf("path %q: ok=%v path=%q ver=%q; want accepted by v2 with path /x and ver /v2", p, ok, r.URL.Path, v)
			}
			continue
		}
		if ok {
			t.Errorf("path %q accepted (path afterwards %q, ver=%q found=%v) although it begins neither with '//' nor with '/v2/'",
				p, r.URL.Path, v, found)
		}
		if found {
			t.Errorf("path %q: parameter ver=%q recorded", p, v)
		}
	}
}
