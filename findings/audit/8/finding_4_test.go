package mux

import (
	"net/http"
	"net/url"
	"testing"

	"github.com/issue9/mux/v9/types"
)

// C15: the matcher accepts iff the path begins with '/<version>/' for one of ITS versions.
// NewPathVersion / NewHeaderVersion keep the caller's variadic slice (no copy) - NewPathVersion even
// rewrites it in place - so the version list of an already built matcher changes when the caller
// reuses the slice, and a later "" element makes pathVersion.Match panic (ver[:len(ver)-1] on "").
func TestFinding4_PathVersionAliasesCallerSlice(t *testing.T) {
	vs := []string{"v1", "v2"}
	m := NewPathVersion("ver", vs...)

	if vs[0] != "v1" || vs[1] != "v2" {
		t.Errorf("NewPathVersion rewrote the caller's slice: %q", vs)
	}

	// the caller reuses its slice for something else
	vs[0], vs[1] = "beta", ""

	func() {
		defer func() {
			if e := recover(); e != nil {
				t.Errorf("Match panicked: %v", e)
			}
		}()
		r := &http.Request{URL: &url.URL{Path: "/v1/x"}}
		ctx := types.NewContext()
		if !m.Match(r, ctx) || r.URL.Path != "/x" {
			t.Errorf("matcher built for [v1 v2] no longer accepts /v1/x (path now %q)", r.URL.Path)
		}
	}()
}

func TestFinding4_HeaderVersionAliasesCallerSlice(t *testing.T) {
	vs := []string{"1", "2"}
	m := NewHeaderVersion("ver", "", func(error) {}, vs...)
	vs[0], vs[1] = "8", "9"

	r := &http.Request{URL: &url.URL{Path: "/x"}, Header: http.Header{"Accept": {"application/json; version=1"}}}
	if !m.Match(r, types.NewContext()) {
		t.Errorf("matcher built for [1 2] rejects version=1 after the caller changed its own slice")
	}
	r = &http.Request{URL: &url.URL{Path: "/x"}, Header: http.Header{"Accept": {"application/json; version=9"}}}
	if m.Match(r, types.NewContext()) {
		t.Errorf("matcher built for [1 2] accepts version=9 after the caller changed its own slice")
	}
}
