package mux

import (
	"net/http"
	"net/url"
	"testing"

	"github.com/issue9/mux/v9/types"
)

// C15: a header-version matcher must accept iff the Accept header parses as a media type whose
// configured parameter equals one of the versions. Media type parameter names are case-insensitive
// (mime.ParseMediaType lower-cases them), but NewHeaderVersion keeps the configured key verbatim,
// so a key containing an upper-case letter can never be found: the matcher rejects every request.
func TestFinding1_HeaderVersionKeyCase(t *testing.T) {
	for _, accept := range []string{
		"application/json; Version=2",
		"application/json; version=2",
		"application/json; VERSION=2",
	} {
		m := NewHeaderVersion("ver", "Version", func(error) {}, "1", "2")
		r := &http.Request{URL: &url.URL{Path: "/x"}, Header: http.Header{"Accept": {accept}}}
		ctx := types.NewContext()
		if !m.Match(r, ctx) {
			t.Errorf("key %q, versions [1 2], Accept %q: rejected, want accepted", "Version", accept)
			continue
		}
		if v, _ := ctx.Get("ver"); v != "2" {
			t.Errorf("Accept %q: recorded %q, want %q", accept, v, "2")
		}
	}
}
