package mux

import (
	"net/http"
	"net/http/httptest"
	"testing"

	"github.com/issue9/mux/v9/types"
)

func f5Call(w http.ResponseWriter, r *http.Request, _ types.Route, h http.Handler) { h.ServeHTTP(w, r) }

func f5Builder(types.Node) http.Handler {
	return http.HandlerFunc(func(w http.ResponseWriter, r *http.Request) { w.WriteHeader(http.StatusMethodNotAllowed) })
}

// C16: "With a recovery option configured, a panic raised anywhere while a Router or Group serves a
// request - in a route handler, a middleware, or a 404/405/... handler - never escapes ServeHTTP".
// A Group built with WithRecovery only protects (a) routers created by Group.New and (b) its own
// not-found handler. A router attached with Group.Add keeps its own (absent) recovery, and
// Group.ServeHTTP installs no recover around router.serveContext, so the panic escapes
// Group.ServeHTTP although the group has a recovery function (the comment in Group.ServeHTTP claims
// the routers get it "automatically", which is true for New only).
func TestFinding5_GroupRecoveryDoesNotCoverAddedRouter(t *testing.T) {
	var got []any
	g := NewGroup[http.Handler](f5Call, http.NotFoundHandler(), f5Builder, f5Builder,
		WithRecovery(func(w http.ResponseWriter, v any) { got = append(got, v); w.WriteHeader(http.StatusInternalServerError) }))

	r := NewRouter[http.Handler]("added", f5Call, http.NotFoundHandler(), f5Builder, f5Builder) // no recovery of its own
	r.Get("/panic", http.HandlerFunc(func(http.ResponseWriter, *http.Request) { panic("boom") }))
	r.Get("/ok", http.HandlerFunc(func(w http.ResponseWriter, _ *http.Request) { w.WriteHeader(http.StatusAccepted) }))
	g.Add(nil, r)

	var escaped any
	func() {
		defer func() { escaped = recover() }()
		g.ServeHTTP(httptest.NewRecorder(), httptest.NewRequest(http.MethodGet, "/panic", nil))
	}()

	if escaped != nil {
		t.Errorf("panic %v escaped Group.ServeHTTP although the group was built with WithRecovery", escaped)
	}
	if len(got) != 1 || got[0] != "boom" {
		t.Errorf("group recovery function received %v, want exactly [boom]", got)
	}

	w := httptest.NewRecorder()
	g.ServeHTTP(w, httptest.NewRequest(http.MethodGet, "/ok", nil))
	if w.Code != http.StatusAccepted {
		t.Errorf("follow-up request: status %d", w.Code)
	}
}
