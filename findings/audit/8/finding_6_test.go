package mux

import (
	"net/http"
	"net/http/httptest"
	"testing"

	"github.com/issue9/mux/v9/types"
)

func f6Call(w http.ResponseWriter, r *http.Request, _ types.Route, h http.Handler) { h.ServeHTTP(w, r) }

func f6Builder(types.Node) http.Handler {
	return http.HandlerFunc(func(w http.ResponseWriter, r *http.Request) { w.WriteHeader(http.StatusMethodNotAllowed) })
}

// C16: "a panic raised anywhere while a ... Group serves a request ... never escapes ServeHTTP"
// (quantifier: every place a user-supplied function can panic). Group.ServeHTTP runs the routers'
// matchers (user supplied Matcher / MatcherFunc, Hosts interceptors) before any recover is installed:
// the per-router recover lives in serveContext, the group-level one is deferred only after the loop.
// A panic raised during matching therefore escapes, the recovery function is never called.
func TestFinding6_GroupRecoveryDoesNotCoverMatchers(t *testing.T) {
	var got []any
	g := NewGroup[http.Handler](f6Call, http.NotFoundHandler(), f6Builder, f6Builder,
		WithRecovery(func(w http.ResponseWriter, v any) { got = append(got, v); w.WriteHeader(http.StatusInternalServerError) }))

	bad := true
	r := g.New("r1", MatcherFunc(func(r *http.Request, _ *types.Context) bool {
		if bad && r.Header.Get("X-Tenant") == "" {
			panic("no tenant")
		}
		return true
	}))
	r.Get("/ok", http.HandlerFunc(func(w http.ResponseWriter, _ *http.Request) { w.WriteHeader(http.StatusAccepted) }))

	var escaped any
	func() {
		defer func() { escaped = recover() }()
		g.ServeHTTP(httptest.NewRecorder(), httptest.NewRequest(http.MethodGet, "/ok", nil))
	}()
	if escaped != nil {
		t.Errorf("panic %v raised in a matcher escaped Group.ServeHTTP although WithRecovery is configured", escaped)
	}
	if len(got) != 1 || got[0] != "no tenant" {
		t.Errorf("recovery function received %v, want exactly [no tenant]", got)
	}

	bad = false
	w := httptest.NewRecorder()
	g.ServeHTTP(w, httptest.NewRequest(http.MethodGet, "/ok", nil))
	if w.Code != http.StatusAccepted {
		t.Errorf("follow-up request: status %d", w.Code)
	}
}
