package mux

import (
	"net/http"
	"net/http/httptest"
	"testing"

	"github.com/issue9/mux/v9/types"
)

func f7Call(w http.ResponseWriter, r *http.Request, _ types.Route, h http.Handler) { h.ServeHTTP(w, r) }

func f7Builder(types.Node) http.Handler {
	return http.HandlerFunc(func(w http.ResponseWriter, r *http.Request) { w.WriteHeader(http.StatusMethodNotAllowed) })
}

// C16: routers created by Group.New inherit the group's recovery option. NewGroup evaluates the
// options once (g.recoverFunc) but also stores the caller's variadic slice itself (options: o) and
// Group.New re-reads that slice. If the caller reuses its slice afterwards (here: to build the options
// of another, unrelated router), routers created later by New silently lose the recovery function
// while the group itself (not-found path) still has it.
func TestFinding7_GroupOptionsSliceAliased(t *testing.T) {
	var got []any
	opts := []Option{WithRecovery(func(w http.ResponseWriter, v any) { got = append(got, v); w.WriteHeader(http.StatusInternalServerError) })}
	g := NewGroup[http.Handler](f7Call, http.NotFoundHandler(), f7Builder, f7Builder, opts...)

	// the caller reuses its slice for another router that wants different options
	opts[0] = WithLock(true)
	_ = NewRouter[http.Handler]("other", f7Call, http.NotFoundHandler(), f7Builder, f7Builder, opts...)

	r := g.New("r1", nil)
	r.Get("/panic", http.HandlerFunc(func(http.ResponseWriter, *http.Request) { panic("boom") }))

	var escaped any
	func() {
		defer func() { escaped = recover() }()
		g.ServeHTTP(httptest.NewRecorder(), httptest.NewRequest(http.MethodGet, "/panic", nil))
	}()
	if escaped != nil {
		t.Errorf("panic %v escaped: router created by Group.New did not inherit the group's recovery", escaped)
	}
	if len(got) != 1 || got[0] != "boom" {
		t.Errorf("recovery function received %v, want exactly [boom]", got)
	}
}
