package mux

import (
	"net/http"
	"net/url"
	"testing"

	"github.com/issue9/mux/v9/types"
)

// C15: "accepts iff the Accept header parses as a media type whose configured parameter equals one of
// its versions ... When either rejects, the request and the parameters are left untouched."
// With "" among the versions (NewHeaderVersion accepts it; `version=""` is a legal explicit value) the
// matcher also accepts every Accept header that has NO such parameter at all, because the map lookup
// ps[key] yields "" for a missing key, and records ver="" in the parameters.
func TestFinding2_HeaderVersionMissingParameterAccepted(t *testing.T) {
	m := NewHeaderVersion("ver", "", func(error) {}, "", "2")

	// sanity: the explicit empty value is a real, distinguishable input
	{
		r := &http.Request{URL: &url.URL{Path: "/x"}, Header: http.Header{"Accept": {`application/json; version=""`}}}
		ctx := types.NewContext()
		if !m.Match(r, ctx) {
			t.Fatalf(`explicit version="" should be accepted`)
		}
	}

	for _, accept := range []string{
		"application/json",               // no parameter at all
		"application/json; charset=utf8", // other parameter only
		"application/json; ver=2",        // different parameter name
	} {
		r := &http.Request{URL: &url.URL{Path: "/x"}, Header: http.Header{"Accept": {accept}}}
		ctx := types.NewContext()
		ok := m.Match(r, ctx)
		if ok {
			t.Errorf("Accept %q has no 'version' parameter but the matcher accepted it", accept)
		}
		if ctx.Count() != 0 {
			v, _ := ctx.Get("ver")
			t.Errorf("Accept %q: parameters were modified (ver=%q) although the header carries no version", accept, v)
		}
	}
}
