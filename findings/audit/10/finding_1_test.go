package mux

// Finding 1 (C19): Prefix.Clean is not equivalent to removing the routes that
// start with the prefix through Router.Remove: it leaves handler-less, child-less
// intermediate nodes in the tree, and these change how later registrations are
// ordered, hence which route a request is dispatched to.

import (
	"net/http"
	"net/http/httptest"
	"reflect"
	"testing"

	"github.com/issue9/mux/v9/types"
)

func f1Router() *Router[http.Handler] {
	call := func(w http.ResponseWriter, r *http.Request, rt types.Route, h http.Handler) {
		rt.Params().Range(func(k, v string) { w.Header().Add("X-Param", k+"="+v) })
		w.Header().Set("X-Pattern", rt.Node().Pattern())
		h.ServeHTTP(w, r)
	}
	b := func(status int) types.BuildNodeHandler[http.Handler] {
		return func(n types.Node) http.Handler {
			return http.HandlerFunc(func(w http.ResponseWriter, r *http.Request) { w.WriteHeader(status) })
		}
	}
	return NewRouter[http.Handler]("def", call, http.NotFoundHandler(), b(405), b(200))
}

func f1Handler(body string) http.Handler {
	return http.HandlerFunc(func(w http.ResponseWriter, r *http.Request) { w.Write([]byte(body)) })
}

// the same program; the only difference is how the two routes below the prefix are removed.
func f1Build(facade bool) *Router[http.Handler] {
	r := f1Router()

	p := r.Prefix("/{a:\\d+}/x/")
	p.Get("p1", f1Handler("A-p1"))
	p.Get("q2", f1Handler("A-q2"))
	r.Get("/{b:\\w+}/x/p1", f1Handler("B"))

	if facade {
		p.Prefix("p").Clean() // removes exactly /{a:\d+}/x/p1
		p.Prefix("q").Clean() // removes exactly /{a:\d+}/x/q2
	} else { // desugared: Router calls on the concatenated patterns
		r.Remove("/{a:\\d+}/x/p1")
		r.Remove("/{a:\\d+}/x/q2")
	}

	p.Get("p1", f1Handler("A-p1-again")) // == r.Get("/{a:\\d+}/x/p1", ...)
	return r
}

func TestFinding1_PrefixCleanLeavesEmptyNodes(t *testing.T) {
	facade, plain := f1Build(true), f1Build(false)

	if r1, r2 := facade.Routes(), plain.Routes(); !reflect.DeepEqual(r1, r2) {
		t.Fatalf("Routes() differ (not expected): %v vs %v", r1, r2)
	}

	do := func(r http.Handler) (string, string, []string) {
		w := httptest.NewRecorder()
		r.ServeHTTP(w, httptest.NewRequest(http.MethodGet, "/12/x/p1", nil))
		return w.Body.String(), w.Header().Get("X-Pattern"), w.Header().Values("X-Param")
	}
	b1, p1, ps1 := do(facade)
	b2, p2, ps2 := do(plain)
	if b1 != b2 || p1 != p2 || !reflect.DeepEqual(ps1, ps2) {
		t.Errorf("same route table, GET /12/x/p1 dispatched differently:\n"+
			"  Prefix.Clean version : body=%q pattern=%q params=%v\n"+
			"  Router.Remove version: body=%q pattern=%q params=%v", b1, p1, ps1, b2, p2, ps2)
	}
}
