package mux

// Finding 2 (C20): parameters captured for a request disappear from types.Params
// when the route tree backtracks over a segment that carries the same name - even
// over a segment written {-name}, which by definition never captures anything.
// Count/Get/Exists/String/Range then no longer agree with what was captured.

import (
	"net/http"
	"net/http/httptest"
	"reflect"
	"testing"

	"github.com/issue9/mux/v9/types"
)

func TestFinding2_BacktrackingDeletesCapturedParam(t *testing.T) {
	var params map[string]string
	var count int
	var exists bool
	call := func(w http.ResponseWriter, r *http.Request, rt types.Route, h http.Handler) {
		params = map[string]string{}
		rt.Params().Range(func(k, v string) { params[k] = v })
		count = rt.Params().Count()
		exists = rt.Params().Exists("sub")
		h.ServeHTTP(w, r)
	}
	b := func(status int) types.BuildNodeHandler[http.Handler] {
		return func(types.Node) http.Handler {
			return http.HandlerFunc(func(w http.ResponseWriter, _ *http.Request) { w.WriteHeader(status) })
		}
	}
	h := func(body string) http.Handler {
		return http.HandlerFunc(func(w http.ResponseWriter, _ *http.Request) { w.Write([]byte(body)) })
	}

	g := NewGroup[http.Handler](call, http.NotFoundHandler(), b(405), b(200))
	// the host matcher captures {sub}; documented to be readable through types.Params
	r := g.New("r1", NewHosts(false, "{sub}.example.com"))
	r.Get("/{-sub}/c/d", h("d")) // {-sub}: "do not capture"
	r.Get("/{-sub}/c/f", h("f"))
	r.Get("/{o}/c/e", h("e"))

	do := func(path string) string {
		w := httptest.NewRecorder()
		g.ServeHTTP(w, httptest.NewRequest(http.MethodGet, "http://foo.example.com"+path, nil))
		return w.Body.String()
	}

	// control: no backtracking, host parameter is there
	if body := do("/x/c/d"); body != "d" || !reflect.DeepEqual(params, map[string]string{"sub": "foo"}) {
		t.Fatalf("control: body=%q params=%v", body, params)
	}

	// /x/c/e first walks into "{-sub}/c/" (captures nothing), fails on its children,
	// backtracks and then matches /{o}/c/e. Captured for this request: sub=foo (host), o=x (path).
	body := do("/x/c/e")
	want := map[string]string{"sub": "foo", "o": "x"}
	if body != "e" {
		t.Fatalf("dispatch: %q", body)
	}
	if !reflect.DeepEqual(params, want) || count != 2 || !exists {
		t.Errorf("captured %v, but Params reports Range=%v Count=%d Exists(sub)=%v", want, params, count, exists)
	}
}

// the same loss with an ordinary capturing segment: the host value is overwritten
// during a failed attempt and then deleted instead of being restored.
func TestFinding2_BacktrackingDeletesCapturedParam_named(t *testing.T) {
	var params map[string]string
	call := func(w http.ResponseWriter, r *http.Request, rt types.Route, h http.Handler) {
		params = map[string]string{}
		rt.Params().Range(func(k, v string) { params[k] = v })
		h.ServeHTTP(w, r)
	}
	b := func(status int) types.BuildNodeHandler[http.Handler] {
		return func(types.Node) http.Handler {
			return http.HandlerFunc(func(w http.ResponseWriter, _ *http.Request) { w.WriteHeader(status) })
		}
	}
	h := http.HandlerFunc(func(w http.ResponseWriter, _ *http.Request) {})

	g := NewGroup[http.Handler](call, http.NotFoundHandler(), b(405), b(200))
	r := g.New("r1", NewHosts(false, "{sub}.example.com"))
	r.Get("/{sub}/c/d", h)
	r.Get("/{sub}/c/f", h)
	r.Get("/{o}/c/e", h)

	w := httptest.NewRecorder()
	g.ServeHTTP(w, httptest.NewRequest(http.MethodGet, "http://foo.example.com/x/c/e", nil))
	// the matched route /{o}/c/e has no parameter called sub, so the host's value must survive
	if want := map[string]string{"sub": "foo", "o": "x"}; !reflect.DeepEqual(params, want) {
		t.Errorf("captured %v, Params reports %v", want, params)
	}
}
