package mux

// Finding 3 (C20, lower severity): Destroy is not idempotent. After a history that
// contains two Destroy calls on the same context the pool hands the same object to
// two owners; a later NewContext then wipes the parameters of a context that is
// still in use, so Set/Get stop behaving like a map for that context.

import (
	"testing"

	"github.com/issue9/mux/v9/types"
)

func TestFinding3_DoubleDestroyAliasesContexts(t *testing.T) {
	for attempt := 0; attempt < 20; attempt++ { // sync.Pool gives no guarantees, so try a few times
		c := types.NewContext()
		c.Set("x", "1")
		c.Destroy()
		c.Destroy() // the nil-safe, "harmless" cleanup call executed twice (e.g. explicit call + defer)

		a := types.NewContext()
		if a.Count() != 0 {
			t.Fatalf("a does not start empty")
		}
		a.Set("k", "v")

		b := types.NewContext() // an unrelated second context
		if b.Count() != 0 {
			t.Fatalf("b does not start empty")
		}

		// nothing was done to a since a.Set("k","v")
		if v, found := a.Get("k"); !found || v != "v" {
			t.Fatalf("attempt %d: a.Set(k,v) then a.Get(k) = %q,%v (a and b are the same object: %v)", attempt, v, found, a == b)
		}
		b.Set("k", "other")
		if v, _ := a.Get("k"); v != "v" {
			t.Fatalf("attempt %d: write through b changed a: %q", attempt, v)
		}
	}
}
