package mux

// C17, sentence 3: "a pattern that is not identical up to parameter names to
// any live route is never rejected as ambiguous".

import (
	"net/http"
	"testing"

	"github.com/issue9/mux/v9/types"
)

func f2Router() *Router[http.Handler] {
	call := func(w http.ResponseWriter, r *http.Request, _ types.Route, h http.Handler) { h.ServeHTTP(w, r) }
	b := func(status int) types.BuildNodeHandler[http.Handler] {
		return func(n types.Node) http.Handler {
			return http.HandlerFunc(func(w http.ResponseWriter, r *http.Request) {
				w.Header().Set("Allow", n.AllowHeader())
				w.WriteHeader(status)
			})
		}
	}
	return NewRouter[http.Handler]("f2", call, http.NotFoundHandler(), b(http.StatusMethodNotAllowed), b(http.StatusOK))
}

func f2Try(f func()) (msg any) {
	defer func() { msg = recover() }()
	f()
	return nil
}

func TestFinding2_DifferentRuleRejectedAsAmbiguous(t *testing.T) {
	h := http.HandlerFunc(func(w http.ResponseWriter, r *http.Request) {})

	r := f2Router()
	r.Get(`/p/{id:\d{2}}/a`, h)
	r.Get(`/p/{id:\d{3}}/a`, h)

	// same parameter name, different rule: not "identical up to parameter names" to either live route.
	if msg := f2Try(func() { r.Get(`/p/{id:\d{4}}/a`, h) }); msg != nil {
		t.Errorf("routes=%v\nHandle(`/p/{id:\\d{4}}/a`) rejected: %v", r.Routes(), msg)
	}
}

// variant: adding another method to an already live pattern is reported as ambiguous with a different live route.
func TestFinding2_SecondMethodOnLivePatternRejectedAsAmbiguous(t *testing.T) {
	h := http.HandlerFunc(func(w http.ResponseWriter, r *http.Request) {})

	r := f2Router()
	r.Get(`/p/{id:\d{2}}/a`, h)
	r.Get(`/p/{id:\d{3}}/a`, h)

	if msg := f2Try(func() { r.Post(`/p/{id:\d{3}}/a`, h) }); msg != nil {
		t.Errorf("routes=%v\nPost on the live pattern `/p/{id:\\d{3}}/a` rejected: %v", r.Routes(), msg)
	}
}
