package mux

// C17, sentence 1: "A Handle call that is rejected ... changes nothing".
//
// A Handle call that panics with a syntax error raised from inside the tree
// (node splitting) has already removed / rewritten a live route.

import (
	"fmt"
	"net/http"
	"net/http/httptest"
	"reflect"
	"testing"

	"github.com/issue9/mux/v9/types"
)

func f1Router() *Router[http.Handler] {
	call := func(w http.ResponseWriter, r *http.Request, _ types.Route, h http.Handler) { h.ServeHTTP(w, r) }
	b := func(status int) types.BuildNodeHandler[http.Handler] {
		return func(n types.Node) http.Handler {
			return http.HandlerFunc(func(w http.ResponseWriter, r *http.Request) {
				w.Header().Set("Allow", n.AllowHeader())
				w.WriteHeader(status)
			})
		}
	}
	return NewRouter[http.Handler]("f1", call, http.NotFoundHandler(), b(http.StatusMethodNotAllowed), b(http.StatusOK))
}

func f1Status(code int) http.Handler {
	return http.HandlerFunc(func(w http.ResponseWriter, r *http.Request) { w.WriteHeader(code) })
}

func f1Snapshot(r *Router[http.Handler], paths []string) map[string]string {
	ret := map[string]string{"Routes()": fmt.Sprint(r.Routes())}
	for _, p := range paths {
		for _, m := range []string{"GET", "HEAD", "POST", "OPTIONS"} {
			w := httptest.NewRecorder()
			req := httptest.NewRequest(m, "http://localhost/", nil)
			req.URL.Path = p
			r.ServeHTTP(w, req)
			ret[m+" "+p] = fmt.Sprintf("%d Allow=%q", w.Code, w.Header().Get("Allow"))
		}
	}
	return ret
}

func f1Try(f func()) (msg any) {
	defer func() { msg = recover() }()
	f()
	return nil
}

// the live route disappears completely
func TestFinding1_RejectedHandleRemovesLiveRoute(t *testing.T) {
	r := f1Router()
	r.Get(`/p/{id:\d{}}/a`, f1Status(201)) // accepted; matches the path /p/5{}/a

	paths := []string{"/p/5{}/a", "/p/5{2}/a", `/p/{id:\dzz}/a`}
	before := f1Snapshot(r, paths)
	if before["GET /p/5{}/a"] != `201 Allow=""` {
		t.Fatalf("precondition: %v", before)
	}

	msg := f1Try(func() { r.Get(`/p/{id:\d{2}}/a`, f1Status(202)) })
	if msg == nil {
		t.Skip("the call was accepted, nothing to check")
	}
	t.Logf("Handle panicked with: %v", msg)

	after := f1Snapshot(r, paths)
	if !reflect.DeepEqual(before, after) {
		for k, v := range before {
			if after[k] != v {
				t.Errorf("%s: before %s, after the rejected Handle %s", k, v, after[k])
			}
		}
	}
}

// the live route stays in Routes() but is rewritten: its dispatch outcomes change
func TestFinding1_RejectedHandleRewritesLiveRoute(t *testing.T) {
	r := f1Router()
	r.Get(`/p/{id:\d{2}}/a`, f1Status(201)) // accepted; matches the path /p/5{2}/a

	paths := []string{"/p/5{}/a", "/p/5{2}/a", `/p/{id:\dzz}/a`}
	before := f1Snapshot(r, paths)
	if before["GET /p/5{2}/a"] != `201 Allow=""` {
		t.Fatalf("precondition: %v", before)
	}

	msg := f1Try(func() { r.Get(`/p/{id:\d{}}/a`, f1Status(202)) })
	if msg == nil {
		t.Skip("the call was accepted, nothing to check")
	}
	t.Logf("Handle panicked with: %v", msg)

	after := f1Snapshot(r, paths)
	if !reflect.DeepEqual(before, after) {
		for k, v := range before {
			if after[k] != v {
				t.Errorf("%s: before %s, after the rejected Handle %s", k, v, after[k])
			}
		}
	}
}
