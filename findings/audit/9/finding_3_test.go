package mux

// C17, sentence 2: "a pattern identical up to parameter names (or the '-' flag)
// to the only other route of a router is always rejected".
//
// History: two routes sharing a parameter segment, one of them removed again.

import (
	"net/http"
	"testing"

	"github.com/issue9/mux/v9/types"
)

func f3Router() *Router[http.Handler] {
	call := func(w http.ResponseWriter, r *http.Request, _ types.Route, h http.Handler) { h.ServeHTTP(w, r) }
	b := func(status int) types.BuildNodeHandler[http.Handler] {
		return func(n types.Node) http.Handler {
			return http.HandlerFunc(func(w http.ResponseWriter, r *http.Request) {
				w.Header().Set("Allow", n.AllowHeader())
				w.WriteHeader(status)
			})
		}
	}
	return NewRouter[http.Handler]("f3", call, http.NotFoundHandler(), b(http.StatusMethodNotAllowed), b(http.StatusOK))
}

func f3Try(f func()) (msg any) {
	defer func() { msg = recover() }()
	f()
	return nil
}

func f3Check(t *testing.T, r *Router[http.Handler], only string, renamed ...string) {
	t.Helper()
	h := http.HandlerFunc(func(w http.ResponseWriter, r *http.Request) {})

	routes := r.Routes()
	if _, ok := routes[only]; !ok || len(routes) != 2 { // "*" and the only route
		t.Fatalf("precondition: %q should be the only route: %v", only, routes)
	}

	// control: on a fresh router with that single route the renamed patterns are rejected
	for _, p := range renamed {
		fresh := f3Router()
		fresh.Get(only, h)
		if msg := f3Try(func() { fresh.Get(p, h) }); msg == nil {
			t.Fatalf("control: %q accepted next to %q on a fresh router", p, only)
		}
	}

	for _, p := range renamed {
		if msg := f3Try(func() { r.Get(p, h) }); msg == nil {
			t.Errorf("%q accepted although it is identical up to parameter names to the only route %q; routes=%v", p, only, r.Routes())
			r.Remove(p)
		}
	}
}

func TestFinding3_AfterRemove(t *testing.T) {
	h := http.HandlerFunc(func(w http.ResponseWriter, r *http.Request) {})
	r := f3Router()
	r.Get(`/p/{id}/a`, h)
	r.Get(`/p/{id}/b`, h)
	r.Remove(`/p/{id}/b`)
	f3Check(t, r, `/p/{id}/a`, `/p/{x}/a`, `/p/{-id}/a`)
}

func TestFinding3_AfterPrefixClean(t *testing.T) {
	h := http.HandlerFunc(func(w http.ResponseWriter, r *http.Request) {})
	r := f3Router()
	r.Get(`/p/{id:\d+}/a`, h)
	r.Get(`/p/{id:\d+}/b/c`, h)
	r.Prefix(`/p/{id:\d+}/b`).Clean()
	f3Check(t, r, `/p/{id:\d+}/a`, `/p/{x:\d+}/a`, `/p/{-id:\d+}/a`)
}

func TestFinding3_AfterRemoveMethod(t *testing.T) {
	h := http.HandlerFunc(func(w http.ResponseWriter, r *http.Request) {})
	r := f3Router()
	r.Get(`/p/{id}/ab`, h)
	r.Post(`/p/{id}/ac`, h)
	r.Remove(`/p/{id}/ac`, http.MethodPost)
	f3Check(t, r, `/p/{id}/ab`, `/p/{x}/ab`)
}
