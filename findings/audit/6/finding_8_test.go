package mux

// Finding 8 (C11, low severity): "any 404 or 405 response never carries
// Access-Control-Allow-Origin". The CORS headers are written before the handler
// runs; when the handler panics, the library's own recovery option
// (WithStatusRecovery / WithWriteRecovery / WithLogRecovery / WithSLogRecovery,
// the package's tests use status 404) answers with that status and leaves the
// CORS grant in place.

import (
	"net/http"
	"net/http/httptest"
	"testing"

	"github.com/issue9/mux/v9/types"
)

func f8Router(o ...Option) *Router[http.Handler] {
	b := func(status int) types.BuildNodeHandler[http.Handler] {
		return func(n types.Node) http.Handler {
			return http.HandlerFunc(func(w http.ResponseWriter, _ *http.Request) {
				w.Header().Set("Allow", n.AllowHeader())
				w.WriteHeader(status)
			})
		}
	}
	call := func(w http.ResponseWriter, r *http.Request, _ types.Route, h http.Handler) { h.ServeHTTP(w, r) }
	return NewRouter[http.Handler]("f8", call, http.NotFoundHandler(), b(405), b(200), o...)
}

func TestFinding8_Recovery404KeepsGrant(t *testing.T) {
	r := f8Router(WithCORS([]string{"https://a.example"}, nil, nil, 0, true), WithStatusRecovery(http.StatusNotFound))
	r.Get("/p", http.HandlerFunc(func(http.ResponseWriter, *http.Request) { panic("boom") }))

	w := httptest.NewRecorder()
	rq := httptest.NewRequest(http.MethodGet, "/p", nil)
	rq.Header.Set("Origin", "https://a.example")
	r.ServeHTTP(w, rq)
	if w.Code == http.StatusNotFound && w.Header().Get("Access-Control-Allow-Origin") != "" {
		t.Errorf("404 response carries ACAO=%q ACAC=%q", w.Header().Get("Access-Control-Allow-Origin"), w.Header().Get("Access-Control-Allow-Credentials"))
	}
}
