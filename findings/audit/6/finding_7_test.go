package mux

// Finding 7 (C11, low severity, wording-level): C12 defines a preflight as
// "OPTIONS with Access-Control-Request-Method, path other than '*'". The code
// decides with r.Header.Get(...) != "", so a present-but-empty
// Access-Control-Request-Method header is not a preflight for the code. The
// empty method is certainly not served by the route and x-evil is not allowed,
// but the answer carries Access-Control-Allow-Origin and credentials.

import (
	"net/http"
	"net/http/httptest"
	"testing"

	"github.com/issue9/mux/v9/types"
)

func f7Router(o ...Option) *Router[http.Handler] {
	b := func(status int) types.BuildNodeHandler[http.Handler] {
		return func(n types.Node) http.Handler {
			return http.HandlerFunc(func(w http.ResponseWriter, _ *http.Request) {
				w.Header().Set("Allow", n.AllowHeader())
				w.WriteHeader(status)
			})
		}
	}
	call := func(w http.ResponseWriter, r *http.Request, _ types.Route, h http.Handler) { h.ServeHTTP(w, r) }
	return NewRouter[http.Handler]("f7", call, http.NotFoundHandler(), b(405), b(200), o...)
}

func TestFinding7_EmptyRequestMethodHeader(t *testing.T) {
	r := f7Router(WithCORS([]string{"https://a.example"}, []string{"Content-Type"}, nil, 0, true))
	r.Get("/p", http.HandlerFunc(func(http.ResponseWriter, *http.Request) {}))

	w := httptest.NewRecorder()
	rq := httptest.NewRequest(http.MethodOptions, "/p", nil)
	rq.Header.Set("Origin", "https://a.example")
	rq.Header["Access-Control-Request-Method"] = []string{""} // present, empty
	rq.Header.Set("Access-Control-Request-Headers", "x-evil")
	r.ServeHTTP(w, rq)
	if got := w.Header().Get("Access-Control-Allow-Origin"); got != "" {
		t.Errorf("OPTIONS with Access-Control-Request-Method: \"\" and a disallowed requested header got ACAO=%q", got)
	}
}
