package mux

// Finding 6 (C11, low severity): an empty string in the origin list matches a
// request that has no Origin header at all (http.Header.Get returns "" for a
// missing header). The response then carries "Access-Control-Allow-Origin: "
// plus "Access-Control-Allow-Credentials: true" although the request has no
// origin of its own that could be "exactly in the configured list". An empty
// element easily comes out of strings.Split(os.Getenv("ORIGINS"), ",").

import (
	"net/http"
	"net/http/httptest"
	"strings"
	"testing"

	"github.com/issue9/mux/v9/types"
)

func f6Router(o ...Option) *Router[http.Handler] {
	b := func(status int) types.BuildNodeHandler[http.Handler] {
		return func(n types.Node) http.Handler {
			return http.HandlerFunc(func(w http.ResponseWriter, _ *http.Request) {
				w.Header().Set("Allow", n.AllowHeader())
				w.WriteHeader(status)
			})
		}
	}
	call := func(w http.ResponseWriter, r *http.Request, _ types.Route, h http.Handler) { h.ServeHTTP(w, r) }
	return NewRouter[http.Handler]("f6", call, http.NotFoundHandler(), b(405), b(200), o...)
}

func TestFinding6_EmptyOriginEntry(t *testing.T) {
	r := f6Router(WithCORS(strings.Split("https://a.example,", ","), nil, nil, 0, true))
	r.Get("/p", http.HandlerFunc(func(http.ResponseWriter, *http.Request) {}))

	w := httptest.NewRecorder()
	rq := httptest.NewRequest(http.MethodGet, "/p", nil) // no Origin header
	r.ServeHTTP(w, rq)
	if v, found := w.Header()["Access-Control-Allow-Origin"]; found {
		t.Errorf("request without Origin got Access-Control-Allow-Origin=%q Access-Control-Allow-Credentials=%q",
			v, w.Header().Get("Access-Control-Allow-Credentials"))
	}
}
