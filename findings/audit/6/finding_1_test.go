package mux

// Finding 1 (C11): Access-Control-Request-Headers / -Method split over several
// field lines. cors.handle and cors.headerIsAllowed read the request headers
// with http.Header.Get, which only returns the FIRST field line. A list header
// may legally be split over several lines (RFC 9110 5.3), and Go's server and
// client both keep the lines as separate values. Everything after the first
// line is never checked, so a preflight asking for a header outside the
// allowed list is granted.

import (
	"net/http"
	"net/http/httptest"
	"testing"

	"github.com/issue9/mux/v9/types"
)

func f1Router(o ...Option) *Router[http.Handler] {
	b := func(status int) types.BuildNodeHandler[http.Handler] {
		return func(n types.Node) http.Handler {
			return http.HandlerFunc(func(w http.ResponseWriter, _ *http.Request) {
				w.Header().Set("Allow", n.AllowHeader())
				w.WriteHeader(status)
			})
		}
	}
	call := func(w http.ResponseWriter, r *http.Request, _ types.Route, h http.Handler) { h.ServeHTTP(w, r) }
	return NewRouter[http.Handler]("f1", call, http.NotFoundHandler(), b(405), b(200), o...)
}

func TestFinding1_MultiLineRequestHeaders(t *testing.T) {
	r := f1Router(WithCORS([]string{"https://a.example"}, []string{"Content-Type"}, nil, 60, true))
	r.Get("/p", http.HandlerFunc(func(w http.ResponseWriter, _ *http.Request) {}))

	// over the wire, through a real server and client: two field lines
	srv := httptest.NewServer(r)
	defer srv.Close()
	req, err := http.NewRequest(http.MethodOptions, srv.URL+"/p", nil)
	if err != nil {
		t.Fatal(err)
	}
	req.Header.Set("Origin", "https://a.example")
	req.Header.Set("Access-Control-Request-Method", "GET")
	req.Header["Access-Control-Request-Headers"] = []string{"content-type", "x-evil"} // x-evil is NOT allowed
	resp, err := srv.Client().Do(req)
	if err != nil {
		t.Fatal(err)
	}
	resp.Body.Close()
	if v := resp.Header.Values("Access-Control-Allow-Origin"); len(v) != 0 {
		t.Errorf("preflight asking for x-evil (second Access-Control-Request-Headers line) was granted: ACAO=%q ACAC=%q",
			v, resp.Header.Get("Access-Control-Allow-Credentials"))
	}

	// control: the same list on one line is refused, as it should be
	w := httptest.NewRecorder()
	rq := httptest.NewRequest(http.MethodOptions, "/p", nil)
	rq.Header.Set("Origin", "https://a.example")
	rq.Header.Set("Access-Control-Request-Method", "GET")
	rq.Header.Set("Access-Control-Request-Headers", "content-type, x-evil")
	r.ServeHTTP(w, rq)
	if w.Header().Get("Access-Control-Allow-Origin") != "" {
		t.Fatalf("control failed: single-line list granted")
	}

	// same root cause for Access-Control-Request-Method: the combined field value
	// is "GET, DELETE", which is not a method /p serves; only "GET" is looked at.
	w = httptest.NewRecorder()
	rq = httptest.NewRequest(http.MethodOptions, "/p", nil)
	rq.Header.Set("Origin", "https://a.example")
	rq.Header["Access-Control-Request-Method"] = []string{"GET", "DELETE"}
	r.ServeHTTP(w, rq)
	if w.Header().Get("Access-Control-Allow-Origin") != "" {
		t.Errorf("preflight with Access-Control-Request-Method lines [GET DELETE] on a GET-only route was granted: %v", w.Header())
	}
}
