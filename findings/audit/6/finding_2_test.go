package mux

// Finding 2 (C12): a preflight whose requested headers are ALL allowed is
// refused when the Access-Control-Request-Headers list contains an empty
// element (trailing/leading/double comma). RFC 9110 5.6.1.2 requires recipients
// to ignore empty list elements; the property quantifies over "arbitrary case,
// spacing and lists". cors.headerIsAllowed looks the empty element up in the
// allow list and, not finding it, refuses the whole preflight.

import (
	"net/http"
	"net/http/httptest"
	"testing"

	"github.com/issue9/mux/v9/types"
)

func f2Router(o ...Option) *Router[http.Handler] {
	b := func(status int) types.BuildNodeHandler[http.Handler] {
		return func(n types.Node) http.Handler {
			return http.HandlerFunc(func(w http.ResponseWriter, _ *http.Request) {
				w.Header().Set("Allow", n.AllowHeader())
				w.WriteHeader(status)
			})
		}
	}
	call := func(w http.ResponseWriter, r *http.Request, _ types.Route, h http.Handler) { h.ServeHTTP(w, r) }
	return NewRouter[http.Handler]("f2", call, http.NotFoundHandler(), b(405), b(200), o...)
}

func TestFinding2_EmptyListElementRefusesAllowedPreflight(t *testing.T) {
	r := f2Router(WithCORS([]string{"https://a.example"}, []string{"Content-Type", "X-A"}, []string{"X-E"}, 60, true))
	r.Get("/p", http.HandlerFunc(func(w http.ResponseWriter, _ *http.Request) {}))

	for _, acrh := range []string{"content-type,", ",content-type", "content-type, ,x-a", "content-type,,x-a", ","} {
		w := httptest.NewRecorder()
		rq := httptest.NewRequest(http.MethodOptions, "/p", nil)
		rq.Header.Set("Origin", "https://a.example")
		rq.Header.Set("Access-Control-Request-Method", "GET")
		rq.Header.Set("Access-Control-Request-Headers", acrh)
		r.ServeHTTP(w, rq)
		h := w.Header()
		if h.Get("Access-Control-Allow-Origin") != "https://a.example" ||
			h.Get("Access-Control-Allow-Credentials") != "true" ||
			h.Get("Access-Control-Allow-Headers") != "Content-Type,X-A" ||
			h.Get("Access-Control-Max-Age") != "60" {
			t.Errorf("ACRH=%q: every requested header is allowed, yet the preflight is not granted: %v", acrh, h)
		}
	}
}
