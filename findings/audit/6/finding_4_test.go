package mux

// Finding 4 (C11, histories): WithCORS keeps the caller's slices. After the
// router is built, the origin check (slices.Index(c.Origins, ...)) and the
// requested-header check (containsFold(c.AllowHeaders, ...)) read the caller's
// backing arrays live, while allowHeadersString / anyOrigins / deny were frozen
// at construction time. Reusing or editing the slice afterwards (e.g. a config
// buffer that is reused for the next router) makes the router grant an origin
// and a header that were never configured for it.

import (
	"net/http"
	"net/http/httptest"
	"testing"

	"github.com/issue9/mux/v9/types"
)

func f4Router(name string, o ...Option) *Router[http.Handler] {
	b := func(status int) types.BuildNodeHandler[http.Handler] {
		return func(n types.Node) http.Handler {
			return http.HandlerFunc(func(w http.ResponseWriter, _ *http.Request) {
				w.Header().Set("Allow", n.AllowHeader())
				w.WriteHeader(status)
			})
		}
	}
	call := func(w http.ResponseWriter, r *http.Request, _ types.Route, h http.Handler) { h.ServeHTTP(w, r) }
	return NewRouter[http.Handler](name, call, http.NotFoundHandler(), b(405), b(200), o...)
}

func TestFinding4_ConfigSlicesAliased(t *testing.T) {
	origins := []string{"https://a.example"}
	allow := []string{"Content-Type"}
	r := f4Router("f4", WithCORS(origins, allow, nil, 0, true))
	r.Get("/p", http.HandlerFunc(func(http.ResponseWriter, *http.Request) {}))

	// the caller reuses its buffers for something else
	origins[0] = "https://evil.example"
	allow[0] = "X-Evil"

	w := httptest.NewRecorder()
	rq := httptest.NewRequest(http.MethodGet, "/p", nil)
	rq.Header.Set("Origin", "https://evil.example")
	r.ServeHTTP(w, rq)
	if got := w.Header().Get("Access-Control-Allow-Origin"); got != "" {
		t.Errorf("router configured with [https://a.example] granted %q (credentials=%q)", got, w.Header().Get("Access-Control-Allow-Credentials"))
	}

	w = httptest.NewRecorder()
	rq = httptest.NewRequest(http.MethodOptions, "/p", nil)
	rq.Header.Set("Origin", "https://evil.example")
	rq.Header.Set("Access-Control-Request-Method", "GET")
	rq.Header.Set("Access-Control-Request-Headers", "x-evil")
	r.ServeHTTP(w, rq)
	if got := w.Header().Get("Access-Control-Allow-Origin"); got != "" {
		t.Errorf("preflight asking for x-evil granted (ACAO=%q) although the router advertises Access-Control-Allow-Headers=%q",
			got, w.Header().Get("Access-Control-Allow-Headers"))
	}
}
