package mux

// Finding 5 (C11, low severity): requested header names are compared with
// strings.EqualFold after strings.TrimSpace. Both are Unicode-aware, while
// header names are ASCII tokens compared ASCII-case-insensitively. "x-\u017fecret"
// (U+017F LATIN SMALL LETTER LONG S) and "x-\u212aey" (U+212A KELVIN SIGN) are not
// "X-Secret" / "X-Key" under any header-name comparison, and U+00A0 / U+0085 are not optional
// white space, yet preflights asking for them are granted. Go's HTTP server
// passes bytes >= 0x80 in field values through, so this is reachable on the wire.

import (
	"net/http"
	"net/http/httptest"
	"testing"

	"github.com/issue9/mux/v9/types"
)

func f5Router(o ...Option) *Router[http.Handler] {
	b := func(status int) types.BuildNodeHandler[http.Handler] {
		return func(n types.Node) http.Handler {
			return http.HandlerFunc(func(w http.ResponseWriter, _ *http.Request) {
				w.Header().Set("Allow", n.AllowHeader())
				w.WriteHeader(status)
			})
		}
	}
	call := func(w http.ResponseWriter, r *http.Request, _ types.Route, h http.Handler) { h.ServeHTTP(w, r) }
	return NewRouter[http.Handler]("f5", call, http.NotFoundHandler(), b(405), b(200), o...)
}

func TestFinding5_UnicodeFoldingOfRequestedHeaders(t *testing.T) {
	r := f5Router(WithCORS([]string{"https://a.example"}, []string{"X-Secret", "X-Key"}, nil, 0, true))
	r.Get("/p", http.HandlerFunc(func(http.ResponseWriter, *http.Request) {}))

	for _, acrh := range []string{"x-\u017fecret", "x-\u212aey", "\u00a0x-key", "x-key\u0085"} {
		w := httptest.NewRecorder()
		rq := httptest.NewRequest(http.MethodOptions, "/p", nil)
		rq.Header.Set("Origin", "https://a.example")
		rq.Header.Set("Access-Control-Request-Method", "GET")
		rq.Header.Set("Access-Control-Request-Headers", acrh)
		r.ServeHTTP(w, rq)
		if got := w.Header().Get("Access-Control-Allow-Origin"); got != "" {
			t.Errorf("ACRH=%q is not in the allowed list [X-Secret X-Key], yet ACAO=%q", acrh, got)
		}
	}
}
