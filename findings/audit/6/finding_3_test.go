package mux

// Finding 3 (C11/C12, histories with WithLock(true)): cors.handle decides
// "does the route serve the requested method" with node.Methods() and then
// writes Access-Control-Allow-Methods with node.AllowHeader(). These are two
// separate read-lock acquisitions, so a concurrent Remove/Handle can slip in
// between. The response then grants a preflight for DELETE (ACAO + credentials)
// while its own Access-Control-Allow-Methods does not list DELETE. No single
// state of the route table explains that response: if DELETE is served, C12
// wants ACAM == Allow set (with DELETE); if it is not, C11 forbids ACAO.

import (
	"net/http"
	"net/http/httptest"
	"slices"
	"strings"
	"sync"
	"testing"
	"time"

	"github.com/issue9/mux/v9/types"
)

func f3Router(o ...Option) *Router[http.Handler] {
	b := func(status int) types.BuildNodeHandler[http.Handler] {
		return func(n types.Node) http.Handler {
			return http.HandlerFunc(func(w http.ResponseWriter, _ *http.Request) {
				w.Header().Set("Allow", n.AllowHeader())
				w.WriteHeader(status)
			})
		}
	}
	call := func(w http.ResponseWriter, r *http.Request, _ types.Route, h http.Handler) { h.ServeHTTP(w, r) }
	return NewRouter[http.Handler]("f3", call, http.NotFoundHandler(), b(405), b(200), o...)
}

var f3OK = http.HandlerFunc(func(http.ResponseWriter, *http.Request) {})

// f3Node forces the interleaving deterministically: the writer runs right after
// the method check and before the Allow string is read.
type f3Node struct {
	types.Node
	between func()
}

func (n f3Node) Methods() []string {
	m := n.Node.Methods()
	n.between()
	return m
}

func TestFinding3_Deterministic(t *testing.T) {
	r := f3Router(WithLock(true), WithCORS([]string{"https://a.example"}, nil, nil, 0, true))
	r.Get("/p", f3OK).Delete("/p", f3OK)

	rq := httptest.NewRequest(http.MethodOptions, "/p", nil)
	rq.Header.Set("Origin", "https://a.example")
	rq.Header.Set("Access-Control-Request-Method", "DELETE")

	ctx := types.NewContext()
	ctx.Path = "/p"
	node, _, ok := r.tree.Handler(ctx, http.MethodOptions)
	if !ok {
		t.Fatal("setup")
	}
	wh := http.Header{}
	r.cors.handle(f3Node{Node: node, between: func() { r.Remove("/p", http.MethodDelete) }}, wh, rq)

	acam := strings.Split(wh.Get("Access-Control-Allow-Methods"), ", ")
	if wh.Get("Access-Control-Allow-Origin") != "" && !slices.Contains(acam, "DELETE") {
		t.Errorf("preflight for DELETE granted (ACAO=%q, ACAC=%q) with Access-Control-Allow-Methods=%q",
			wh.Get("Access-Control-Allow-Origin"), wh.Get("Access-Control-Allow-Credentials"), wh.Get("Access-Control-Allow-Methods"))
	}
}

func TestFinding3_Stress(t *testing.T) {
	r := f3Router(WithLock(true), WithCORS([]string{"https://a.example"}, nil, nil, 0, true))
	r.Get("/p", f3OK)

	stop := make(chan struct{})
	var wg sync.WaitGroup
	wg.Add(1)
	go func() {
		defer wg.Done()
		for {
			select {
			case <-stop:
				return
			default:
			}
			r.Delete("/p", f3OK)
			r.Remove("/p", http.MethodDelete)
		}
	}()

	deadline := time.Now().Add(5 * time.Second)
	for time.Now().Before(deadline) {
		w := httptest.NewRecorder()
		rq := httptest.NewRequest(http.MethodOptions, "/p", nil)
		rq.Header.Set("Origin", "https://a.example")
		rq.Header.Set("Access-Control-Request-Method", "DELETE")
		r.ServeHTTP(w, rq)
		acam := strings.Split(w.Header().Get("Access-Control-Allow-Methods"), ", ")
		if w.Header().Get("Access-Control-Allow-Origin") != "" && !slices.Contains(acam, "DELETE") {
			t.Errorf("preflight for DELETE granted with Access-Control-Allow-Methods=%q", w.Header().Get("Access-Control-Allow-Methods"))
			break
		}
	}
	close(stop)
	wg.Wait()
}
