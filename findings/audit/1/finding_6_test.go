package mux

// Finding 6 (C02, C01): the request path "*" is short-circuited to the router's
// internal "OPTIONS *" node before any route is looked at. A registered route that
// matches the path "*" (the literal pattern "*", or a leading parameter such as
// {path}) can never be reached; the router answers 405 and reports the route "",
// which is not a registered pattern.

import (
	"net/http"
	"net/http/httptest"
	"net/url"
	"testing"

	"github.com/issue9/mux/v9/types"
)

func TestFinding6_StarPathNeverResolved(t *testing.T) {
	for _, pattern := range []string{"*", "{path}", `{path:.+}`} {
		var handler, reported string
		call := func(_ http.ResponseWriter, _ *http.Request, route types.Route, h string) {
			handler = h
			reported = "<nil>"
			if route.Node() != nil {
				reported = route.Node().Pattern()
			}
		}
		r := NewRouter[string]("f6", call, "404",
			func(types.Node) string { return "405" },
			func(types.Node) string { return "OPTIONS" })
		r.Handle(pattern, "h", nil, http.MethodGet)

		if _, found := r.Routes()[pattern]; !found {
			t.Fatalf("pattern %q not registered", pattern)
		}

		req := httptest.NewRequest(http.MethodGet, "/", nil)
		req.URL = &url.URL{Path: "*"}
		r.ServeHTTP(httptest.NewRecorder(), req)
		if handler != "h" || reported != pattern {
			t.Errorf("route %q registered for GET, GET * -> handler=%q reported route=%q; want handler h, route %q",
				pattern, handler, reported, pattern)
		}
	}
}
