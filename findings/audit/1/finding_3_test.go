package mux

// Finding 3 (C01): literal text that follows a regexp parameter is matched by the
// regexp engine (rune-wise), not byte-wise. The engine decodes every invalid UTF-8
// byte of the path as U+FFFD, so a literal U+FFFD in the pattern (3 bytes EF BF BD)
// matches any single invalid byte of the request path.

import (
	"net/http"
	"net/http/httptest"
	"net/url"
	"testing"

	"github.com/issue9/mux/v9/types"
)

func TestFinding3_LiteralAfterRegexpIsNotByteForByte(t *testing.T) {
	const pattern = "/p/{id:\\d+}\uFFFD"
	const path = "/p/5\xff"

	var handler, id string
	call := func(_ http.ResponseWriter, _ *http.Request, route types.Route, h string) {
		handler = h
		id, _ = route.Params().Get("id")
	}
	r := NewRouter[string]("f3", call, "404",
		func(types.Node) string { return "405" },
		func(types.Node) string { return "OPTIONS" })
	r.Handle(pattern, "h", nil, http.MethodGet)

	// sanity: the exact path is served
	req := httptest.NewRequest(http.MethodGet, "/", nil)
	req.URL = &url.URL{Path: "/p/5\uFFFD"}
	r.ServeHTTP(httptest.NewRecorder(), req)
	if handler != "h" || id != "5" {
		t.Fatalf("exact path not served: handler=%q id=%q", handler, id)
	}

	handler, id = "", ""
	req = httptest.NewRequest(http.MethodGet, "/", nil)
	req.URL = &url.URL{Path: path}
	r.ServeHTTP(httptest.NewRecorder(), req)
	if handler == "h" {
		t.Errorf("path %q dispatched to pattern %q with id=%q: pattern[id:=value] = %q (% x) is not the request path (% x)",
			path, pattern, id, "/p/"+id+"\uFFFD", "/p/"+id+"\uFFFD", path)
	}

	// The same pattern with a named parameter compares bytes and correctly answers 404.
	handler = ""
	r2 := NewRouter[string]("f3n", call, "404",
		func(types.Node) string { return "405" },
		func(types.Node) string { return "OPTIONS" })
	r2.Handle("/p/{id}\uFFFD", "h", nil, http.MethodGet)
	r2.ServeHTTP(httptest.NewRecorder(), req)
	if handler != "404" {
		t.Errorf("named variant: want 404, got %q", handler)
	}
}
