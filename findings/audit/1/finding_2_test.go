package mux

// Finding 2 (C01): the rule of a regexp parameter is spliced into
// "(?P<name>" + rule + ")" + suffix without being validated on its own, so a rule
// with unbalanced parentheses closes the capture group early. The reported value is
// then only a part of what the parameter consumed, and flags such as (?i) leak
// into the literal text that follows the parameter.

import (
	"net/http"
	"net/http/httptest"
	"net/url"
	"regexp"
	"strings"
	"testing"

	"github.com/issue9/mux/v9/types"
)

type f2Result struct {
	handler string
	params  map[string]string
}

func f2Serve(t *testing.T, pattern, path string) (res f2Result, registered bool) {
	call := func(_ http.ResponseWriter, _ *http.Request, route types.Route, h string) {
		res.handler = h
		res.params = map[string]string{}
		route.Params().Range(func(k, v string) { res.params[k] = v })
	}
	r := NewRouter[string]("f2", call, "404",
		func(types.Node) string { return "405" },
		func(types.Node) string { return "OPTIONS" })

	registered = func() (ok bool) {
		defer func() { ok = recover() == nil }()
		r.Handle(pattern, "h", nil, http.MethodGet)
		return
	}()
	if !registered {
		return
	}

	req := httptest.NewRequest(http.MethodGet, "/", nil)
	req.URL = &url.URL{Path: path}
	r.ServeHTTP(httptest.NewRecorder(), req)
	return res, true
}

func TestFinding2_RuleEscapesItsCaptureGroup(t *testing.T) {
	// rule = `a)(b` is not a regexp at all
	if _, err := regexp.Compile(`a)(b`); err == nil {
		t.Fatal("test assumption broken")
	}

	res, registered := f2Serve(t, `/x/{id:a)(b}`, "/x/ab")
	if registered && res.handler == "h" {
		if got := strings.Replace(`/x/{id:a)(b}`, `{id:a)(b}`, res.params["id"], 1); got != "/x/ab" {
			t.Errorf("pattern /x/{id:a)(b} dispatched /x/ab with id=%q: pattern[id:=value] = %q != request path",
				res.params["id"], got)
		}
	}

	// the (?i) inside the rule makes the literal "/End" match case-insensitively
	res, registered = f2Serve(t, `/y/{id:a)(?i)(b}/End`, "/y/aB/end")
	if registered && res.handler == "h" {
		t.Errorf("pattern /y/{id:a)(?i)(b}/End dispatched /y/aB/end (id=%q): literal text /End does not match /end byte for byte",
			res.params["id"])
	}
}
