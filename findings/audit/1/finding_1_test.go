package mux

// Finding 1 (C01 + C02): a regexp rule containing a {m,n} quantifier is cut at
// the first '}' - the rule becomes `\d{2`, the remaining '}' becomes literal text.

import (
	"net/http"
	"net/http/httptest"
	"net/url"
	"testing"

	"github.com/issue9/mux/v9/types"
)

type f1Result struct {
	handler string
	pattern string
	params  map[string]string
}

func f1Router() (*Router[string], *f1Result) {
	res := &f1Result{}
	call := func(_ http.ResponseWriter, _ *http.Request, route types.Route, h string) {
		res.handler = h
		res.params = map[string]string{}
		route.Params().Range(func(k, v string) { res.params[k] = v })
		res.pattern = "<nil>"
		if route.Node() != nil {
			res.pattern = route.Node().Pattern()
		}
	}
	r := NewRouter[string]("f1", call, "404",
		func(types.Node) string { return "405" },
		func(types.Node) string { return "OPTIONS" })
	return r, res
}

func f1Serve(r *Router[string], res *f1Result, path string) f1Result {
	*res = f1Result{}
	req := httptest.NewRequest(http.MethodGet, "/", nil)
	req.URL = &url.URL{Path: path}
	r.ServeHTTP(httptest.NewRecorder(), req)
	return *res
}

func TestFinding1_BraceQuantifierInRegexpRule(t *testing.T) {
	const pattern = `/p/{id:\d{2}}`

	r, res := f1Router()
	rejected := func() (rejected bool) {
		defer func() { rejected = recover() != nil }()
		r.Handle(pattern, "h", nil, http.MethodGet)
		return
	}()
	if rejected {
		return // refusing the pattern outright would at least be sound
	}

	// C02: the constraint \d{2} accepts "12", so the procedure finds the route.
	if got := f1Serve(r, res, "/p/12"); got.handler != "h" || got.params["id"] != "12" {
		t.Errorf("GET /p/12 on %s: got handler=%q pattern=%q params=%v; want handler h with id=12",
			pattern, got.handler, got.pattern, got.params)
	}

	// C01: "1{2" does not satisfy \d{2}, and /p/ + "1{2" is not the request path.
	if got := f1Serve(r, res, "/p/1{2}"); got.handler != "404" {
		t.Errorf("GET /p/1{2} on %s: dispatched to %q with params %v; the value does not satisfy \\d{2} and pattern[id:=value] = %q != request path",
			pattern, got.handler, got.params, "/p/"+got.params["id"])
	}
}
