package mux

// Finding 5 (C02): a regexp parameter followed by literal text takes the LONGEST text
// its rule allows (the rule and the literal are one greedy regexp), i.e. the regexp
// engine silently widens the capture until the rest of the segment fits. The
// documented procedure says the parameter takes the shortest text after which the
// literal occurs, and that a capture is never widened when what follows fails
// (README: /posts/{id}-{page:digit}.html does not match /posts/1-1-1.html).

import (
	"net/http"
	"net/http/httptest"
	"net/url"
	"testing"

	"github.com/issue9/mux/v9/types"
)

func f5Serve(o []Option, patterns []string, path string) (handler string, params map[string]string) {
	call := func(_ http.ResponseWriter, _ *http.Request, route types.Route, h string) {
		handler = h
		params = map[string]string{}
		route.Params().Range(func(k, v string) { params[k] = v })
	}
	r := NewRouter[string]("f5", call, "404",
		func(types.Node) string { return "405" },
		func(types.Node) string { return "OPTIONS" }, o...)
	for _, p := range patterns {
		r.Handle(p, p, nil, http.MethodGet)
	}
	req := httptest.NewRequest(http.MethodGet, "/", nil)
	req.URL = &url.URL{Path: path}
	r.ServeHTTP(httptest.NewRecorder(), req)
	return
}

func TestFinding5_RegexpParameterWidensItsCapture(t *testing.T) {
	digit := []Option{WithDigitInterceptor("digit")}

	// control: the README example with a named parameter
	if h, _ := f5Serve(digit, []string{`/posts/{id}-{page:digit}.html`}, "/posts/1-1-1.html"); h != "404" {
		t.Fatalf("README example: want 404, got %q", h)
	}

	// Same example, {id} constrained by a rule that accepts "1": shortest text followed
	// by "-" is "1"; the rest "1-1.html" is not {page:digit}.html; no other choice => 404.
	if h, ps := f5Serve(digit, []string{`/posts/{id:.+}-{page:digit}.html`}, "/posts/1-1-1.html"); h != "404" {
		t.Errorf("/posts/{id:.+}-{page:digit}.html served /posts/1-1-1.html with %v; the procedure (shortest capture, no widening) yields 404", ps)
	}

	// \w contains '_': shortest name followed by "_v" is "a"; rest "_v1" is not \d+ => 404.
	if h, ps := f5Serve(nil, []string{`/n/{name:\w+}_v{ver:\d+}`}, "/n/a_v_v1"); h != "404" {
		t.Errorf("/n/{name:\\w+}_v{ver:\\d+} served /n/a_v_v1 with %v; the procedure yields 404", ps)
	}

	// two routes sharing the parameter: shared literal is "/", shortest id is "a",
	// then neither "c" nor "d" consumes the rest "c/x/d" => 404.
	if h, ps := f5Serve(nil, []string{`/y/{id:.+}/c`, `/y/{id:.+}/d`}, "/y/a/c/x/d"); h != "404" {
		t.Errorf("routes /y/{id:.+}/c and /y/{id:.+}/d served /y/a/c/x/d by %s with %v; the procedure yields 404", h, ps)
	}
}
