package mux

// Finding 4 (C02): a regexp parameter that ends the pattern does not take "the whole
// rest when its constraint accepts it". Segment.Match takes the leftmost-first
// *prefix* match of the rule and, when something is left over, the route is given up
// without trying whether the rule accepts the whole rest. Result: 404 although the
// documented procedure finds a route.

import (
	"net/http"
	"net/http/httptest"
	"net/url"
	"regexp"
	"testing"

	"github.com/issue9/mux/v9/types"
)

func TestFinding4_RegexpAtEndDoesNotTakeWholeRest(t *testing.T) {
	cases := []struct{ pattern, rule, path, value string }{
		{`/x/{id:a|ab}`, `a|ab`, "/x/ab", "ab"},
		{`/img/{f:\w+\.jpe?|\w+\.jpeg}`, `\w+\.jpe?|\w+\.jpeg`, "/img/a.jpeg", "a.jpeg"},
		{`/z/{id:\d+?}`, `\d+?`, "/z/123", "123"},
	}

	for _, c := range cases {
		// the constraint accepts the whole rest
		if !regexp.MustCompile(`^(?:` + c.rule + `)$`).MatchString(c.value) {
			t.Fatalf("test assumption broken for %s", c.rule)
		}

		var handler, got string
		call := func(_ http.ResponseWriter, _ *http.Request, route types.Route, h string) {
			handler = h
			route.Params().Range(func(_, v string) { got = v })
		}
		r := NewRouter[string]("f4", call, "404",
			func(types.Node) string { return "405" },
			func(types.Node) string { return "OPTIONS" })
		r.Handle(c.pattern, "h", nil, http.MethodGet)

		req := httptest.NewRequest(http.MethodGet, "/", nil)
		req.URL = &url.URL{Path: c.path}
		r.ServeHTTP(httptest.NewRecorder(), req)
		if handler != "h" || got != c.value {
			t.Errorf("only route %s, GET %s: got handler=%q value=%q; the rule accepts the whole rest %q, so the procedure resolves to this route",
				c.pattern, c.path, handler, got, c.value)
		}
	}
}
