package mux

// Finding 4 (C03): a REJECTED Handle (it panics with a syntax error) silently deletes a
// different, live route: splitNode unlinks the node from its parent before it validates
// the two halves, and returns the error without putting it back.

import (
	"net/http"
	"net/http/httptest"
	"net/url"
	"testing"

	"github.com/issue9/mux/v9/types"
)

func f4Router() *Router[http.Handler] {
	build := func(status int) types.BuildNodeHandler[http.Handler] {
		return func(n types.Node) http.Handler {
			return http.HandlerFunc(func(w http.ResponseWriter, r *http.Request) {
				w.Header().Set("Allow", n.AllowHeader())
				w.WriteHeader(status)
			})
		}
	}
	call := func(w http.ResponseWriter, r *http.Request, _ types.Route, h http.Handler) { h.ServeHTTP(w, r) }
	return NewRouter[http.Handler]("f4", call, http.NotFoundHandler(), build(405), build(200))
}

func f4Do(r http.Handler, method, path string) *httptest.ResponseRecorder {
	req := httptest.NewRequest(method, "http://localhost/", nil)
	req.URL = &url.URL{Path: path}
	req.RequestURI = path
	w := httptest.NewRecorder()
	r.ServeHTTP(w, req)
	return w
}

func TestFinding4_RejectedHandleDeletesLiveRoute(t *testing.T) {
	r := f4Router()
	h := func(id string) http.Handler {
		return http.HandlerFunc(func(w http.ResponseWriter, _ *http.Request) {
			w.Header().Set("X-Served", id)
			w.WriteHeader(200)
		})
	}
	const A, B = `/{a:x{}1`, `/{a:x{}2` // rule `x{` (the text "x{"), suffix "1" / "2"
	const witnessA = "/x{1"

	r.Handle("/k", h("k"), nil, http.MethodPost)
	r.Handle(A, h("A"), nil, http.MethodGet)
	if w := f4Do(r, http.MethodGet, witnessA); w.Code != 200 || w.Header().Get("X-Served") != "A" {
		t.Fatalf("precondition: A must serve %s, got %d", witnessA, w.Code)
	}
	if w := f4Do(r, http.MethodOptions, "*"); w.Header().Get("Allow") != "GET, OPTIONS, POST" {
		t.Fatalf("precondition: OPTIONS * Allow=%q", w.Header().Get("Allow"))
	}

	var rejected any
	func() {
		defer func() { rejected = recover() }()
		r.Handle(B, h("B"), nil, http.MethodGet)
	}()
	if rejected == nil {
		t.Skip("Handle(B) was accepted; scenario does not apply")
	}
	t.Logf("Handle(B) rejected with: %v", rejected)

	// A was registered successfully and never removed: it is live.
	if _, ok := r.Routes()[A]; !ok {
		t.Errorf("C03: Routes() no longer lists the live route %q after a rejected Handle(%q)", A, B)
	}
	if w := f4Do(r, http.MethodGet, witnessA); w.Code != 200 || w.Header().Get("X-Served") != "A" {
		t.Errorf("C03: GET %s -> %d after a rejected Handle of another pattern; want 200 by A", witnessA, w.Code)
	}
	// C04 side effect: the server-wide counters still count the vanished route (until the next Remove/Clean)
	t.Logf("OPTIONS * Allow now: %q", f4Do(r, http.MethodOptions, "*").Header().Get("Allow"))
}
