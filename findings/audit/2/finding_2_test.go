package mux

// Finding 2 (C03): two literal siblings that share their first byte make the first one
// unreachable as soon as the parent has >= 5 children (first-byte index collision).
// Literal text containing '}' (or an unclosed '{') defeats longestPrefix, which then
// reports "no common prefix" for two literals that do share one.

import (
	"net/http"
	"net/http/httptest"
	"net/url"
	"testing"

	"github.com/issue9/mux/v9/types"
)

func f2Router() *Router[http.Handler] {
	build := func(status int) types.BuildNodeHandler[http.Handler] {
		return func(n types.Node) http.Handler {
			return http.HandlerFunc(func(w http.ResponseWriter, r *http.Request) {
				w.Header().Set("Allow", n.AllowHeader())
				w.WriteHeader(status)
			})
		}
	}
	call := func(w http.ResponseWriter, r *http.Request, _ types.Route, h http.Handler) { h.ServeHTTP(w, r) }
	return NewRouter[http.Handler]("f2", call, http.NotFoundHandler(), build(405), build(200))
}

func f2Get(r http.Handler, path string) *httptest.ResponseRecorder {
	req := httptest.NewRequest(http.MethodGet, "http://localhost/", nil)
	req.URL = &url.URL{Path: path}
	req.RequestURI = path
	w := httptest.NewRecorder()
	r.ServeHTTP(w, req)
	return w
}

func f2H(id string) http.Handler {
	return http.HandlerFunc(func(w http.ResponseWriter, _ *http.Request) {
		w.Header().Set("X-Served", id)
		w.WriteHeader(200)
	})
}

func f2Check(t *testing.T, patterns []string) {
	t.Helper()
	r := f2Router()
	for i, p := range patterns {
		r.Handle(p, f2H(p), nil, http.MethodGet)
		// probe every live route after every step
		for _, q := range patterns[:i+1] {
			if _, live := r.Routes()[q]; !live {
				t.Errorf("Routes() does not list live %q", q)
			}
			if w := f2Get(r, q); w.Code != 200 || w.Header().Get("X-Served") != q {
				t.Errorf("after Handle(%q): GET %s -> status %d, served by %q; want 200 by %q",
					p, q, w.Code, w.Header().Get("X-Served"), q)
			}
		}
	}
}

func TestFinding2_ClosingBraceInLiteral(t *testing.T) {
	// with 4 top-level children everything is served; the 5th registration (index gets built) hides "/a}b"
	f2Check(t, []string{"/a}b", "/a}c", "x1", "y2", "z3"})
}

func TestFinding2_UnclosedBraceInLiteral(t *testing.T) {
	f2Check(t, []string{"/a{b", "/a{c", "/ax1", "/ay2", "/az3"})
}

func TestFinding2_RemovalDoesNotBringItBack(t *testing.T) {
	r := f2Router()
	ps := []string{"/a}b", "/a}c", "x1", "y2", "z3", "w4"}
	for _, p := range ps {
		r.Handle(p, f2H(p), nil, http.MethodGet)
	}
	r.Remove("w4") // still 5 children: index rebuilt, "/a}b" still hidden
	if w := f2Get(r, "/a}b"); w.Code != 200 {
		t.Errorf("GET /a}b -> %d, want 200 (route is live: %v)", w.Code, r.Routes()["/a}b"])
	}
}
