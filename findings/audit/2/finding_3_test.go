package mux

// Finding 3 (C03): registering a second route can make a live route unreachable:
// longestPrefix returns the position of a '{' that lies INSIDE a parameter token
// (a '{' in the rule part), so splitNode cuts the live parameter segment in two.

import (
	"net/http"
	"net/http/httptest"
	"net/url"
	"testing"

	"github.com/issue9/mux/v9/types"
)

func f3Router() *Router[http.Handler] {
	build := func(status int) types.BuildNodeHandler[http.Handler] {
		return func(n types.Node) http.Handler {
			return http.HandlerFunc(func(w http.ResponseWriter, r *http.Request) {
				w.Header().Set("Allow", n.AllowHeader())
				w.WriteHeader(status)
			})
		}
	}
	call := func(w http.ResponseWriter, r *http.Request, _ types.Route, h http.Handler) { h.ServeHTTP(w, r) }
	return NewRouter[http.Handler]("f3", call, http.NotFoundHandler(), build(405), build(200))
}

func f3Get(r http.Handler, path string) *httptest.ResponseRecorder {
	req := httptest.NewRequest(http.MethodGet, "http://localhost/", nil)
	req.URL = &url.URL{Path: path}
	req.RequestURI = path
	w := httptest.NewRecorder()
	r.ServeHTTP(w, req)
	return w
}

func f3H(id string) http.Handler {
	return http.HandlerFunc(func(w http.ResponseWriter, _ *http.Request) {
		w.Header().Set("X-Served", id)
		w.WriteHeader(200)
	})
}

func TestFinding3_SecondRegistrationCutsLiveParameter(t *testing.T) {
	r := f3Router()
	const A, B = `/{id:\d{2}}a`, `/{id:\d{2}}b`
	// As parsed by the library: rule `\d{2` (a digit followed by the text "{2"), suffix "}a".
	const witnessA, witnessB = "/1{2}a", "/1{2}b"

	r.Handle(A, f3H("A"), nil, http.MethodGet)
	if w := f3Get(r, witnessA); w.Code != 200 || w.Header().Get("X-Served") != "A" {
		t.Fatalf("precondition: route A alone must serve %s, got %d", witnessA, w.Code)
	}

	r.Handle(B, f3H("B"), nil, http.MethodGet) // accepted
	if _, ok := r.Routes()[A]; !ok {
		t.Fatalf("Routes() lost A")
	}
	if w := f3Get(r, witnessA); w.Code != 200 || w.Header().Get("X-Served") != "A" {
		t.Errorf("after Handle(B): GET %s -> %d served by %q; want 200 by A (A is still listed by Routes())",
			witnessA, w.Code, w.Header().Get("X-Served"))
	}
	if w := f3Get(r, witnessB); w.Code != 200 || w.Header().Get("X-Served") != "B" {
		t.Errorf("after Handle(B): GET %s -> %d served by %q; want 200 by B", witnessB, w.Code, w.Header().Get("X-Served"))
	}

	r.Remove(B)
	if w := f3Get(r, witnessA); w.Code != 200 || w.Header().Get("X-Served") != "A" {
		t.Errorf("after Remove(B): GET %s -> %d; want 200 by A", witnessA, w.Code)
	}
}
