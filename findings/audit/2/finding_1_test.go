package mux

// Finding 1 (C03 + C04): the pattern "*" is accepted by Handle and listed by Routes(),
// but a request whose path is "*" is never routed through the tree: Tree.Handler
// short-circuits the path "*" to the internal root ("OPTIONS *") node.

import (
	"net/http"
	"net/http/httptest"
	"net/url"
	"slices"
	"strings"
	"testing"

	"github.com/issue9/mux/v9/types"
)

func f1Router() *Router[http.Handler] {
	build := func(status int) types.BuildNodeHandler[http.Handler] {
		return func(n types.Node) http.Handler {
			return http.HandlerFunc(func(w http.ResponseWriter, r *http.Request) {
				w.Header().Set("Allow", n.AllowHeader())
				w.WriteHeader(status)
			})
		}
	}
	call := func(w http.ResponseWriter, r *http.Request, rt types.Route, h http.Handler) {
		if n := rt.Node(); n != nil {
			w.Header().Set("X-Node-Methods", strings.Join(n.Methods(), ", "))
		}
		h.ServeHTTP(w, r)
	}
	return NewRouter[http.Handler]("f1", call, http.NotFoundHandler(), build(405), build(200))
}

func f1Do(r http.Handler, method, path string) *httptest.ResponseRecorder {
	req := httptest.NewRequest(method, "http://localhost/", nil)
	req.URL = &url.URL{Path: path}
	req.RequestURI = path
	w := httptest.NewRecorder()
	r.ServeHTTP(w, req)
	return w
}

func TestFinding1_StarPatternIsLiveButNeverServed(t *testing.T) {
	r := f1Router()
	h := http.HandlerFunc(func(w http.ResponseWriter, _ *http.Request) {
		w.Header().Set("X-Served", "star")
		w.WriteHeader(200)
	})

	r.Handle("*", h, nil, http.MethodGet) // accepted: no panic
	r.Handle("/x", h, nil, http.MethodPost)

	// the route is live according to Routes()
	got := slices.Clone(r.Routes()["*"])
	slices.Sort(got)
	if !slices.Equal(got, []string{"GET", "HEAD", "OPTIONS"}) {
		t.Fatalf("precondition: Routes()[\"*\"]=%v", got)
	}

	// C03: every live route serves the request built from its pattern
	if w := f1Do(r, http.MethodGet, "*"); w.Code != 200 || w.Header().Get("X-Served") != "star" {
		t.Errorf("C03: GET * must be served by the live route \"*\" (GET); got status %d, X-Served=%q, Allow=%q",
			w.Code, w.Header().Get("X-Served"), w.Header().Get("Allow"))
	}

	// C04: for the live pattern "*", Allow of its OPTIONS/405 responses, Node().Methods() and Routes() name the same set
	want := "GET, HEAD, OPTIONS"
	if w := f1Do(r, http.MethodOptions, "*"); w.Header().Get("Allow") != want || w.Header().Get("X-Node-Methods") != want {
		t.Errorf("C04: OPTIONS on live pattern \"*\": Allow=%q Node().Methods()=%q, Routes() says %q",
			w.Header().Get("Allow"), w.Header().Get("X-Node-Methods"), want)
	}
	if w := f1Do(r, http.MethodPost, "*"); w.Code != 405 || w.Header().Get("Allow") != want {
		t.Errorf("C04: POST on live pattern \"*\" (only GET registered): status=%d Allow=%q, want 405 %q",
			w.Code, w.Header().Get("Allow"), want)
	}
}
