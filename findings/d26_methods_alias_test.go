package mux

// D26 (C07): Node.Methods() and Routes() handed out the slices of the package-level method-set memo; a caller that
// sorts, truncates or overwrites what it got changed what every other router in the process reports.
import "testing"

func TestFindingD26(t *testing.T) {
	r1, _ := fRouter(t)
	r1.Get("/a", fOK)
	r2, _ := fRouter(t)
	r2.Get("/b", fOK)

	ms := r1.Routes()["/a"]
	if len(ms) == 0 {
		t.Fatal("no methods")
	}
	ms[0] = "HACKED" // the caller owns what it was given

	if got := r2.Routes()["/b"]; got[0] == "HACKED" {
		t.Fatalf("router 2 now reports %v: the slice returned to a caller of router 1 is shared process-wide", got)
	}
}
