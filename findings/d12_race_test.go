package mux

// D12 (C06): with WithLock(true), Handle/Remove racing with ServeHTTP and strict URL.
// Run with: go test -race -overlay ... -run TestFindingD12
import (
	"net/http"
	"sync"
	"testing"
)

func TestFindingD12(t *testing.T) {
	r, _ := fRouter(t, WithLock(true))
	r.Get("/stable/{id}", fOK)
	var wg sync.WaitGroup
	stop := make(chan struct{})
	wg.Add(3)
	go func() {
		defer wg.Done()
		for i := 0; i < 3000; i++ {
			r.Post("/stable/{id}", fOK)
			r.Remove("/stable/{id}", http.MethodPost)
			r.Get("/toggle/x", fOK)
			r.Remove("/toggle/x")
		}
		close(stop)
	}()
	go func() {
		defer wg.Done()
		for {
			select {
			case <-stop:
				return
			default:
				fServe(r, "GET", "/stable/5")
				fServe(r, "POST", "/stable/5")
			}
		}
	}()
	go func() {
		defer wg.Done()
		for {
			select {
			case <-stop:
				return
			default:
				r.URL(true, "/stable/{id}", map[string]string{"id": "1"})
			}
		}
	}()
	wg.Wait()
}
