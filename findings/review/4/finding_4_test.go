package mux

// Finding 4 (commit 780bb5e "a regexp segment whose named group takes no part in the match does not match"):
// Segment.Valid was not changed with Segment.Match. For the rule of the commit message (a)|(b) strict URL
// building still accepts the value that Match now refuses, and hands out a URL the route does not serve.

import (
	"net/http"
	"net/http/httptest"
	"testing"

	"github.com/issue9/mux/v9/internal/tree"
	"github.com/issue9/mux/v9/types"
)

func TestFinding4_ValidDisagreesWithMatch(t *testing.T) {
	call := func(w http.ResponseWriter, r *http.Request, _ types.Route, h http.Handler) { h.ServeHTTP(w, r) }
	r := NewRouter[http.Handler]("f4", call, http.NotFoundHandler(),
		tree.BuildTestNodeHandlerFunc(http.StatusMethodNotAllowed), tree.BuildTestNodeHandlerFunc(http.StatusOK))
	const pattern = "/{id:a)|(b}"
	r.Get(pattern, http.HandlerFunc(func(w http.ResponseWriter, _ *http.Request) { w.WriteHeader(201) }))

	serve := func(path string) int {
		w := httptest.NewRecorder()
		r.ServeHTTP(w, httptest.NewRequest(http.MethodGet, path, nil))
		return w.Code
	}
	if c := serve("/a"); c != 201 {
		t.Fatalf("/a: %d", c)
	}
	if c := serve("/b"); c != 404 { // behaviour chosen by 780bb5e
		t.Fatalf("/b: %d", c)
	}

	u, err := r.URL(true, pattern, map[string]string{"id": "b"})
	if err == nil {
		t.Errorf("strict URL accepted id=b and built %q, which the route answers with %d", u, serve(u))
	}

	// same rule with a literal suffix: the suffix binds to the second alternative only,
	// the route answers /a although its pattern demands a trailing /x.
	r.Get("/s/{id:a)|(b}/x", http.HandlerFunc(func(w http.ResponseWriter, _ *http.Request) { w.WriteHeader(202) }))
	if c := serve("/s/a"); c == 202 {
		t.Errorf("/s/{id:a)|(b}/x answers /s/a with %d", c)
	}
}
