package mux

// Finding 1 (commit 7205346 "try every occurrence of the suffix, including overlapping ones"): incomplete.
// Segment.Match stops at the first occurrence of the suffix whose prefix the interceptor accepts and never
// tries the later ones, so /{id:digit}00 serves /000 (id=0) but not /0000 (id=00), although strict URL
// building hands out /0000 for id=00.

import (
	"net/http"
	"net/http/httptest"
	"testing"

	"github.com/issue9/mux/v9/internal/tree"
	"github.com/issue9/mux/v9/types"
)

func TestFinding1_SuffixRetryStopsAtFirstAcceptedOccurrence(t *testing.T) {
	var got string
	call := func(w http.ResponseWriter, r *http.Request, ps types.Route, h http.Handler) {
		got, _ = ps.Params().Get("id")
		h.ServeHTTP(w, r)
	}
	r := NewRouter[http.Handler]("f1", call, http.NotFoundHandler(),
		tree.BuildTestNodeHandlerFunc(http.StatusMethodNotAllowed), tree.BuildTestNodeHandlerFunc(http.StatusOK),
		WithDigitInterceptor("digit"))
	r.Get("/{id:digit}00", http.HandlerFunc(func(w http.ResponseWriter, _ *http.Request) { w.WriteHeader(201) }))

	serve := func(path string) int {
		got = ""
		w := httptest.NewRecorder()
		r.ServeHTTP(w, httptest.NewRequest(http.MethodGet, path, nil))
		return w.Code
	}

	// the case repaired by the commit
	if c := serve("/000"); c != 201 || got != "0" {
		t.Fatalf("/000: status %d id %q", c, got)
	}

	// the URL the router itself builds for id=00 ...
	u, err := r.URL(true, "/{id:digit}00", map[string]string{"id": "00"})
	if err != nil || u != "/0000" {
		t.Fatalf("URL: %q %v", u, err)
	}
	// ... is not served: the occurrence at offset 1 (id=0) is accepted and the rest "0" matches nothing.
	if c := serve(u); c != 201 || got != "00" {
		t.Errorf("%s: status %d id %q, want 201 and id 00", u, c, got)
	}
	if c := serve("/1200"); c != 201 || got != "12" {
		t.Errorf("/1200: status %d id %q", c, got)
	}
	if c := serve("/10000"); c != 201 || got != "100" {
		t.Errorf("/10000: status %d id %q, want 201 and id 100", c, got)
	}
}
