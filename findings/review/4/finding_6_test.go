package mux

// Finding 6 (commits 36afc01 / 7d5510b, strict URL building validates the parameters; Segment.Valid vs
// Segment.Match): for named and interceptor segments Valid looks at the value alone, Match cuts the path at
// the first occurrence of the suffix the matcher accepts. A value that contains the suffix passes Valid, and
// the URL that strict building returns is answered with 404 by the very route it was built for. The regexp
// branch of Valid (value+suffix must match as a whole) does not have this hole.

import (
	"net/http"
	"net/http/httptest"
	"testing"

	"github.com/issue9/mux/v9/internal/tree"
	"github.com/issue9/mux/v9/types"
)

func TestFinding6_StrictURLNotServedWhenValueContainsSuffix(t *testing.T) {
	var got string
	call := func(w http.ResponseWriter, r *http.Request, ps types.Route, h http.Handler) {
		got, _ = ps.Params().Get("id")
		h.ServeHTTP(w, r)
	}
	r := NewRouter[http.Handler]("f6", call, http.NotFoundHandler(),
		tree.BuildTestNodeHandlerFunc(http.StatusMethodNotAllowed), tree.BuildTestNodeHandlerFunc(http.StatusOK),
		WithAnyInterceptor("any"))
	ok := http.HandlerFunc(func(w http.ResponseWriter, _ *http.Request) { w.WriteHeader(201) })

	for _, pattern := range []string{"/n/{id}.html", "/i/{id:any}.html", "/r/{id:.+}.html"} {
		r.Get(pattern, ok)
		const val = "a.html"
		u, err := r.URL(true, pattern, map[string]string{"id": val})
		if err != nil {
			continue // refusing the value is a consistent answer as well
		}
		got = ""
		w := httptest.NewRecorder()
		r.ServeHTTP(w, httptest.NewRequest(http.MethodGet, u, nil))
		if w.Code != 201 || got != val {
			t.Errorf("%s: strict URL %q is answered with %d, id=%q", pattern, u, w.Code, got)
		}
	}
}
