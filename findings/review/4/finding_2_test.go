package syntax

// Finding 2 (commit 918bf55 "a parameter is an endpoint only when nothing follows its closing brace"): incomplete.
// NewSegment no longer looks at the last byte of the segment, but Split still does (lastFlag): a literal
// that ends in '}' is taken for a parameter and the next parameter is refused as "two adjacent parameters".

import "testing"

func TestFinding2_SplitStillLooksAtLastByte(t *testing.T) {
	i := NewInterceptors()

	// the pattern of the commit message is accepted and {id} is no endpoint any more
	segs, err := i.Split("/x/{id}/a}")
	if err != nil || len(segs) != 2 || segs[1].Endpoint || segs[1].Suffix != "/a}" {
		t.Fatalf("unexpected: %v %v", segs, err)
	}

	// the same literal suffix followed by one more parameter: {id} and {b} are separated by "/a}"
	segs, err = i.Split("/x/{id}/a}{b}")
	if err != nil {
		t.Errorf("/x/{id}/a}{b}: %v", err)
	} else if len(segs) != 3 || segs[1].Value != "{id}/a}" || segs[2].Value != "{b}" {
		t.Errorf("/x/{id}/a}{b}: %v", segs)
	}

	// a plain string ending in '}' in front of a parameter
	if _, err = i.Split("/a}{b}"); err != nil {
		t.Errorf("/a}{b}: %v", err)
	}

	// really adjacent parameters are still refused
	if _, err = i.Split("/x/{id}{b}"); err == nil {
		t.Errorf("/x/{id}{b} accepted")
	}
}
