package mux

// Finding 5 (commit 13776ab "AmbiguousLen is the length of the segment text"): incomplete.
// /u/{a:}/x vs /u/{b:}/x is detected now, but only while the existing segment is still in one piece.
// As soon as a sibling route has split it ({a}/ + x, y), IsAmbiguous compares the suffix of the tree
// node ("/") with the suffix of the whole new segment ("/x"), finds them different and the ambiguity
// goes undetected again: the second route is registered and can never be reached.

import (
	"net/http"
	"net/http/httptest"
	"testing"

	"github.com/issue9/mux/v9/internal/tree"
	"github.com/issue9/mux/v9/types"
)

func TestFinding5_AmbiguityUndetectedAfterSplit(t *testing.T) {
	newR := func() *Router[http.Handler] {
		call := func(w http.ResponseWriter, r *http.Request, _ types.Route, h http.Handler) { h.ServeHTTP(w, r) }
		return NewRouter[http.Handler]("f5", call, http.NotFoundHandler(),
			tree.BuildTestNodeHandlerFunc(http.StatusMethodNotAllowed), tree.BuildTestNodeHandlerFunc(http.StatusOK))
	}
	h := func(code int) http.Handler {
		return http.HandlerFunc(func(w http.ResponseWriter, _ *http.Request) { w.WriteHeader(code) })
	}
	add := func(r *Router[http.Handler], pattern string, code int) (err any) {
		defer func() { err = recover() }()
		r.Get(pattern, h(code))
		return nil
	}

	for _, set := range [][3]string{
		{"/u/{a}/x", "/u/{a}/y", "/u/{b}/x"},
		{"/u/{a:}/x", "/u/{a:}/y", "/u/{b:}/x"}, // the patterns of the commit message plus one sibling
		{"/u/{a:\\d+}/x", "/u/{a:\\d+}/y", "/u/{b:\\d+}/x"},
		{"/u/{a}/x", "/u/{a}/y", "/u/{-a}/x"},
	} {
		// reference: without the sibling the ambiguity is reported
		r := newR()
		if err := add(r, set[0], 201); err != nil {
			t.Fatal(err)
		}
		if err := add(r, set[2], 203); err == nil {
			t.Fatalf("%s vs %s not reported at all", set[0], set[2])
		}

		// with the sibling it is not
		r = newR()
		if err := add(r, set[0], 201); err != nil {
			t.Fatal(err)
		}
		if err := add(r, set[1], 202); err != nil {
			t.Fatal(err)
		}
		if err := add(r, set[2], 203); err == nil {
			w := httptest.NewRecorder()
			r.ServeHTTP(w, httptest.NewRequest(http.MethodGet, "/u/5/x", nil))
			t.Errorf("%s accepted next to %s (sibling %s); /u/5/x is answered by %d only", set[2], set[0], set[1], w.Code)
		}
	}
}
