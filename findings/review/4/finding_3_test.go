package mux

// Finding 3 (commits e49779b longestPrefix / 918bf55 literal '}' in a suffix): longestPrefix treats every '}'
// as the end of a parameter, also a literal one. Two string segments that differ right after a literal '}'
// get "no common prefix" (-10), become siblings that start with the same byte, and break the first-byte
// index of the parent: with five or more children a registered route answers 404.

import (
	"net/http"
	"net/http/httptest"
	"testing"

	"github.com/issue9/mux/v9/internal/tree"
	"github.com/issue9/mux/v9/types"
)

func TestFinding3_LiteralClosingBraceBreaksIndex(t *testing.T) {
	call := func(w http.ResponseWriter, r *http.Request, _ types.Route, h http.Handler) { h.ServeHTTP(w, r) }
	r := NewRouter[http.Handler]("f3", call, http.NotFoundHandler(),
		tree.BuildTestNodeHandlerFunc(http.StatusMethodNotAllowed), tree.BuildTestNodeHandlerFunc(http.StatusOK))

	patterns := []string{"/a}b", "/a}c", "/a}d", "/a}e", "/a}f"}
	for _, p := range patterns {
		r.Get(p, http.HandlerFunc(func(w http.ResponseWriter, _ *http.Request) { w.WriteHeader(201) }))
	}
	for _, p := range patterns {
		req := httptest.NewRequest(http.MethodGet, "/", nil)
		req.URL.Path = p
		w := httptest.NewRecorder()
		r.ServeHTTP(w, req)
		if w.Code != 201 {
			t.Errorf("registered route %s answers %d", p, w.Code)
		}
	}
}
