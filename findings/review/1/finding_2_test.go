package mux

import (
	"net/http"
	"net/http/httptest"
	"testing"

	"github.com/issue9/assert/v4"
)

// Incomplete fix 780bb5e ("a regexp segment whose named group takes no part in
// the match does not match"): Segment.Match now refuses a path matched by the
// alternative outside the named group, but Segment.Valid, which Tree.URL uses to
// validate parameters in strict mode, still accepts it (FindStringIndex, no look
// at the group). Strict URL building, whose purpose is to guarantee the result is
// routable (122b2b3, 7d5510b), therefore returns without error an address that
// the very same route answers with 404.
func TestFinding2_StrictURLAcceptsValueTheRouteRejects(t *testing.T) {
	a := assert.New(t, false)
	const pattern = "/v/{id:a)|(b}" // the rule quoted by commit 780bb5e: compiles to (?P<id>a)|(b)
	r := newRouter(a, "def")
	r.Get(pattern, http.HandlerFunc(func(w http.ResponseWriter, _ *http.Request) { w.WriteHeader(201) }))

	// sanity: the named alternative is routable and buildable
	u, err := r.URL(true, pattern, map[string]string{"id": "a"})
	a.NotError(err).Equal(u, "/v/a")
	w := httptest.NewRecorder()
	r.ServeHTTP(w, httptest.NewRequest(http.MethodGet, u, nil))
	a.Equal(w.Code, 201)

	// "b" is matched by the alternative outside the named group: Match says no (404) ...
	w = httptest.NewRecorder()
	r.ServeHTTP(w, httptest.NewRequest(http.MethodGet, "/v/b", nil))
	a.Equal(w.Code, 404)

	// ... so strict URL building must refuse id=b as "format does not match".
	u, err = r.URL(true, pattern, map[string]string{"id": "b"})
	if err == nil {
		t.Fatalf("strict URL accepted id=b and produced %q, which the route answers with %d", u, w.Code)
	}
}
