package mux

import (
	"net/http"
	"net/http/httptest"
	"sync"
	"testing"
	"time"

	"github.com/issue9/assert/v4"

	"github.com/issue9/mux/v9/types"
)

// Incomplete fix 4a08db2 / c9f4805 ("hold the tree lock while reading what it
// protects"): Tree.Handler now reads node.handlers, tree.notFound under the read
// lock, but Tree.ApplyMiddleware (Router.Use) still rewrites every node's handler
// map, tree.notFound and tree.trace with no lock at all, and Handler still reads
// tree.trace before taking the lock. With WithLock(true) a Router.Use that runs
// while requests are served races on the same Go maps the fix was about
// (possible "fatal error: concurrent map read and map write").
//
// Run with: go test -race -vet=off -count=1 -run TestFinding1 .
func TestFinding1_UseRacesWithServeHTTPUnderWithLock(t *testing.T) {
	a := assert.New(t, false)
	h := http.HandlerFunc(func(w http.ResponseWriter, r *http.Request) {})
	r := newRouter(a, "def", WithLock(true), WithTrace[http.Handler](h))
	r.Get("/posts/{id}", h).Post("/posts/{id}", h).Get("/users", h)

	m := types.MiddlewareFunc[http.Handler](func(next http.Handler, _, _, _ string) http.Handler {
		return http.HandlerFunc(func(w http.ResponseWriter, r *http.Request) { next.ServeHTTP(w, r) })
	})

	stop := make(chan struct{})
	var wg, started sync.WaitGroup
	for g := 0; g < 4; g++ {
		wg.Add(1)
		started.Add(1)
		go func() {
			defer wg.Done()
			started.Done()
			for {
				select {
				case <-stop:
					return
				default:
				}
				for _, method := range []string{"GET", "PUT", "OPTIONS", "TRACE"} {
					for _, p := range []string{"/posts/1", "/users", "/none"} {
						r.ServeHTTP(httptest.NewRecorder(), httptest.NewRequest(method, p, nil))
					}
				}
			}
		}()
	}

	started.Wait()
	for i := 0; i < 50; i++ {
		r.Use(m) // only Use is called concurrently: no Handle, so Router.ms is not contended
		time.Sleep(time.Millisecond)
	}
	close(stop)
	wg.Wait()
}
