package mux

import (
	"net/http"
	"testing"
	"time"

	"github.com/issue9/mux/v9/header"
	"github.com/issue9/mux/v9/types"
)

// Regression introduced by c9f4805 ("AllowHeader/Methods read the method mask
// under the read lock"): the exported accessors Node.AllowHeader() and
// Node.Methods() now take tree.locker.RLock(), but the library itself calls the
// user supplied types.BuildNodeHandler callbacks (OPTIONS / 405 builders) from
// node.addMethods, i.e. inside Tree.Add while the *write* lock is held. A builder
// that looks at the node it is given (the only argument it gets) blocks forever
// on a sync.RWMutex that its own goroutine holds: Router.Handle/Get never
// returns with WithLock(true). Before the commit the same program returned (and
// it still does with WithLock(false), or for the "*" node built in tree.New
// before the locker is installed).
func TestFinding3_BuilderReadingNodeDeadlocksHandleUnderWithLock(t *testing.T) {
	optionsBuilder := func(n types.Node) http.Handler {
		_ = n.Methods() // e.g. logging / pre-sizing; any use of the accessor at build time
		return http.HandlerFunc(func(w http.ResponseWriter, r *http.Request) {
			w.Header().Set(header.Allow, n.AllowHeader())
		})
	}
	notAllowedBuilder := func(n types.Node) http.Handler {
		_ = n.AllowHeader()
		return http.HandlerFunc(func(w http.ResponseWriter, r *http.Request) {
			w.Header().Set(header.Allow, n.AllowHeader())
			w.WriteHeader(http.StatusMethodNotAllowed)
		})
	}

	for _, lock := range []bool{false, true} {
		r := NewRouter("def", call, http.NotFoundHandler(), notAllowedBuilder, optionsBuilder, WithLock(lock))
		done := make(chan struct{})
		go func() {
			defer close(done)
			r.Get("/posts/{id}", http.HandlerFunc(func(http.ResponseWriter, *http.Request) {}))
		}()
		select {
		case <-done:
		case <-time.After(2 * time.Second):
			t.Fatalf("WithLock(%v): Router.Get did not return within 2s: the node builder is called under the tree's write lock and Node.Methods()/AllowHeader() try to take the read lock", lock)
		}
	}
}
