package mux

// Finding 4 (commits ccfd270 / b49b649 / f678e4e: "own copy of the versions",
// "NewPathVersion copies its version list", "WithCORS keeps copies").
//
// The aliasing defect those commits repair in NewPathVersion, NewHeaderVersion and
// WithCORS still reproduces through the neighbouring constructors of the same
// files: AndMatcher / OrMatcher (match.go, AndMatcher was rewritten in 94f3010)
// and NewGroup (group.go) keep the caller's variadic slice.
//
//   - reusing the slice afterwards changes a matcher that is already installed;
//   - for NewGroup the recovery is read from the options at construction time
//     (g.recoverFunc) while Group.New reads the retained slice later, so group and
//     routers created by it can end up with different options.

import (
	"net/http"
	"net/http/httptest"
	"testing"

	"github.com/issue9/mux/v9/internal/tree"
	"github.com/issue9/mux/v9/types"
)

func TestFinding4_AndOrMatcherKeepTheCallersSlice(t *testing.T) {
	yes := MatcherFunc(func(*http.Request, *types.Context) bool { return true })
	no := MatcherFunc(func(*http.Request, *types.Context) bool { return false })
	r := httptest.NewRequest(http.MethodGet, "/", nil)

	ms := []Matcher{yes, yes}
	and := AndMatcher(ms...)
	ms[1] = no // the caller reuses its slice for the next matcher
	ctx := types.NewContext()
	if !and.Match(r, ctx) {
		t.Error("AndMatcher: changing the caller's slice after construction changed the matcher")
	}

	ms = []Matcher{no, no}
	or := OrMatcher(ms...)
	ms[0] = yes
	if or.Match(r, ctx) {
		t.Error("OrMatcher: changing the caller's slice after construction changed the matcher")
	}
	ctx.Destroy()
}

func TestFinding4_NewGroupKeepsTheCallersOptionSlice(t *testing.T) {
	f4call := func(w http.ResponseWriter, r *http.Request, _ types.Route, h http.Handler) { h.ServeHTTP(w, r) }
	mna := tree.BuildTestNodeHandlerFunc(http.StatusMethodNotAllowed)
	opt := tree.BuildTestNodeHandlerFunc(http.StatusOK)

	opts := []Option{WithStatusRecovery(http.StatusTeapot)}
	g := NewGroup[http.Handler](f4call, http.NotFoundHandler(), mna, opt, opts...)
	opts[0] = WithStatusRecovery(http.StatusBadGateway) // the caller reuses its slice for something else

	r := g.New("r", nil) // documented: inherits the parameters given to NewGroup
	r.Get("/panic", http.HandlerFunc(func(http.ResponseWriter, *http.Request) { panic("x") }))

	w := httptest.NewRecorder()
	g.ServeHTTP(w, httptest.NewRequest(http.MethodGet, "/panic", nil))
	if w.Code != http.StatusTeapot {
		t.Errorf("router created by Group.New answered %d, the options given to NewGroup say %d", w.Code, http.StatusTeapot)
	}
}
