package mux

// Finding 5 (commit 42533b5 "Hosts lower-cases a domain pattern outside its braces only"). LOW.
//
// lowerDomain decides what "inside the braces" means by COUNTING NESTED braces;
// the pattern syntax (internal/syntax splitString / NewSegment) does not nest: a
// token starts at '{' and ends at the FIRST '}', and a '{' that is never closed is
// an ordinary character of a string segment. Where the two disagree, literal text
// that the tree compares byte by byte keeps its upper case while Match lower-cases
// the host, so the pattern (accepted by Add) can never match:
//
//	{a:[{]+}.Example.COM   syntax: token {a:[{]+} + literal ".Example.COM"
//	                       lowerDomain: depth never returns to 0 -> nothing lower-cased
//	{Example.COM           syntax: one literal; lowerDomain: "unclosed token" -> untouched
//
// Both matched before the commit (whole pattern lower-cased). Such hosts are not
// valid DNS names and net/http's server refuses them, so this needs a direct
// ServeHTTP/Match call; it is listed as an inconsistency between lowerDomain and
// the syntax package rather than as a practical break.

import (
	"net/http"
	"testing"

	"github.com/issue9/mux/v9/types"
)

func TestFinding5_LowerDomainBraceNestingDisagreesWithSyntax(t *testing.T) {
	cases := []struct{ pattern, host string }{
		{"{a:[{]+}.Example.COM", "{{.example.com"},
		{"{Example.COM", "{example.com"},
	}
	for _, c := range cases {
		h := NewHosts(false, c.pattern) // accepted
		ctx := types.NewContext()
		r := &http.Request{Method: http.MethodGet, Host: c.host}
		if !h.Match(r, ctx) {
			t.Errorf("pattern %q (stored as %q) does not match host %q", c.pattern, lowerDomain(c.pattern), c.host)
		}
		ctx.Destroy()
	}
}
