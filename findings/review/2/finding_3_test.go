package mux

// Finding 3 (commit 42533b5 "Hosts lower-cases a domain pattern outside its braces only").
//
// Hosts matches case-insensitively by lower-casing BOTH sides: Match lower-cases
// the request host, Add used to lower-case the whole pattern. Since the commit
// the text inside {...} keeps its case while Match still lower-cases the host, so
// an upper-case LITERAL in a rule can never match again:
//
//	{sub:API|WWW}.Example.com   Host: API.Example.com
//
// matched before the commit (rule became api|www), and is rejected now for every
// spelling of the host. Host names are case-insensitive, so this is behaviour
// that was right and is wrong now. The commit repaired \D -> \d, but traded it for
// this; character classes such as [A-Z]+ are hit the same way.

import (
	"net/http"
	"net/http/httptest"
	"testing"

	"github.com/issue9/mux/v9/types"
)

func TestFinding3_UpperCaseLiteralInHostRuleNeverMatches(t *testing.T) {
	for _, pattern := range []string{"{sub:API|WWW}.Example.com", "{sub:[A-Z]+}.Example.com"} {
		h := NewHosts(false, pattern)
		matched := false
		for _, host := range []string{"API.Example.com", "api.example.com", "Api.example.COM"} {
			ctx := types.NewContext()
			if h.Match(httptest.NewRequest(http.MethodGet, "http://"+host+"/", nil), ctx) {
				matched = true
			}
			ctx.Destroy()
		}
		if !matched {
			t.Errorf("%s: no spelling of the host matches any more (the host is lower-cased, the rule is not)", pattern)
		}
	}
}
