package mux

// Finding 1 (commit 05ec7b2 "a Group keeps the matcher of each router itself").
//
// The commit message says that adding one router to a second group "raced with
// the other group's ServeHTTP". It still does: Group.Add unconditionally calls
// r.Use(g.ms...), and Router.Use -> Tree.ApplyMiddleware rewrites tree.notFound,
// tree.trace and every node.handlers map WITHOUT taking the tree lock, even when
// the group has no middleware at all (len(g.ms) == 0) and even when the router
// was built WithLock(true). The first group's ServeHTTP reads these under RLock.
//
// Run with: go test -race -vet=off -count=1 -run TestFinding1 .
// (without -race it can also die with "fatal error: concurrent map read and map write")

import (
	"net/http"
	"net/http/httptest"
	"sync"
	"testing"

	"github.com/issue9/mux/v9/internal/tree"
	"github.com/issue9/mux/v9/types"
)

func TestFinding1_SharedRouterAddStillRacesWithOtherGroupServeHTTP(t *testing.T) {
	f1call := func(w http.ResponseWriter, r *http.Request, _ types.Route, h http.Handler) { h.ServeHTTP(w, r) }
	mna := tree.BuildTestNodeHandlerFunc(http.StatusMethodNotAllowed)
	opt := tree.BuildTestNodeHandlerFunc(http.StatusOK)

	shared := NewRouter[http.Handler]("shared", f1call, http.NotFoundHandler(), mna, opt, WithLock(true))
	shared.Get("/x", http.HandlerFunc(func(w http.ResponseWriter, _ *http.Request) { w.WriteHeader(http.StatusOK) }))

	g1 := NewGroup[http.Handler](f1call, http.NotFoundHandler(), mna, opt, WithLock(true))
	g1.Add(nil, shared)

	stop := make(chan struct{})
	var wg sync.WaitGroup
	wg.Add(1)
	go func() { // the first group is serving
		defer wg.Done()
		for {
			select {
			case <-stop:
				return
			default:
			}
			g1.ServeHTTP(httptest.NewRecorder(), httptest.NewRequest(http.MethodGet, "/x", nil))
			g1.ServeHTTP(httptest.NewRecorder(), httptest.NewRequest(http.MethodGet, "/not-found", nil))
		}
	}()

	// meanwhile the same router is attached to other groups (no middleware involved)
	for i := 0; i < 200; i++ {
		g2 := NewGroup[http.Handler](f1call, http.NotFoundHandler(), mna, opt, WithLock(true))
		g2.Add(MatcherFunc(func(*http.Request, *types.Context) bool { return true }), shared)
	}

	close(stop)
	wg.Wait()
}
