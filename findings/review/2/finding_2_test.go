package mux

// Finding 2 (commit 05ec7b2 "a Group keeps the matcher of each router itself").
//
// Since the commit the matcher of a router is found by POSITION: g.matchers[i]
// belongs to g.routers[i]. Group.Routers() still hands out g.routers itself, so
// any in-place operation on the returned slice (sorting it by name for a
// listing, reversing it, ...) silently re-pairs every router with some other
// router's matcher. Before the commit the matcher travelled inside the Router,
// so the same operation could only change the priority order, never send the
// traffic of host A to the router of host B.
//
// The same class of leak was treated as a defect in 7f973a2 ("Methods and Routes
// return copies of the shared method-set table").

import (
	"net/http"
	"net/http/httptest"
	"slices"
	"strings"
	"testing"

	"github.com/issue9/mux/v9/internal/tree"
	"github.com/issue9/mux/v9/types"
)

func TestFinding2_SortingRoutersResultRepairsRoutersWithForeignMatchers(t *testing.T) {
	f2call := func(w http.ResponseWriter, r *http.Request, _ types.Route, h http.Handler) { h.ServeHTTP(w, r) }
	mna := tree.BuildTestNodeHandlerFunc(http.StatusMethodNotAllowed)
	opt := tree.BuildTestNodeHandlerFunc(http.StatusOK)

	g := NewGroup[http.Handler](f2call, http.NotFoundHandler(), mna, opt)

	// registration order: "zeta" first, "alpha" second
	zeta := g.New("zeta", NewHosts(false, "zeta.example.com"))
	zeta.Get("/", http.HandlerFunc(func(w http.ResponseWriter, _ *http.Request) { w.Write([]byte("zeta")) }))
	alpha := g.New("alpha", NewHosts(false, "alpha.example.com"))
	alpha.Get("/", http.HandlerFunc(func(w http.ResponseWriter, _ *http.Request) { w.Write([]byte("alpha")) }))

	get := func(host string) string {
		w := httptest.NewRecorder()
		g.ServeHTTP(w, httptest.NewRequest(http.MethodGet, "http://"+host+"/", nil))
		return w.Body.String()
	}
	if got := get("zeta.example.com"); got != "zeta" {
		t.Fatalf("precondition: got %q", got)
	}

	// a caller prints the routers sorted by name
	rs := g.Routers()
	slices.SortFunc(rs, func(a, b *Router[http.Handler]) int { return strings.Compare(a.Name(), b.Name()) })

	if got := get("zeta.example.com"); got != "zeta" {
		t.Errorf("zeta.example.com is now answered by %q: the routers were re-paired with each other's matchers", got)
	}
	if got := get("alpha.example.com"); got != "alpha" {
		t.Errorf("alpha.example.com is now answered by %q: the routers were re-paired with each other's matchers", got)
	}
}
