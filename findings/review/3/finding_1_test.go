package mux

// Finding 1 — commit e050966 "fix: Vary must name the request headers the CORS
// answer depends on" is incomplete: Vary is only written on the *granting*
// paths of cors.handle. Every refusing path returns before the corresponding
// wh.Add(Vary, ...), so a refusal (which depends on Origin /
// Access-Control-Request-Headers / Access-Control-Request-Method exactly like a
// grant does) is emitted without Vary. A shared cache may then store the
// refusal produced for a foreign origin and replay it to an allowed origin —
// the very situation the commit set out to repair.

import (
	"net/http"
	"net/http/httptest"
	"strings"
	"testing"

	"github.com/issue9/mux/v9/types"
)

func f1Router() *Router[http.Handler] {
	call := func(w http.ResponseWriter, r *http.Request, _ types.Route, h http.Handler) { h.ServeHTTP(w, r) }
	status := func(code int) func(types.Node) http.Handler {
		return func(n types.Node) http.Handler {
			return http.HandlerFunc(func(w http.ResponseWriter, r *http.Request) {
				w.Header().Set("Allow", n.AllowHeader())
				w.WriteHeader(code)
			})
		}
	}
	r := NewRouter[http.Handler]("f1", call, http.NotFoundHandler(), status(405), status(200),
		WithCORS([]string{"https://good.example"}, []string{"X-Token"}, nil, 60, false))
	ok := http.HandlerFunc(func(w http.ResponseWriter, r *http.Request) { w.Write([]byte("secret-free body")) })
	r.Get("/p", ok).Delete("/p", ok)
	return r
}

func f1Vary(h http.Header) string { return strings.Join(h.Values("Vary"), ", ") }

func f1Has(h http.Header, name string) bool {
	for _, line := range h.Values("Vary") {
		for _, v := range strings.Split(line, ",") {
			if strings.EqualFold(strings.TrimSpace(v), name) {
				return true
			}
		}
	}
	return false
}

func TestFinding1_VaryMissingOnRefusal(t *testing.T) {
	r := f1Router()

	// Sanity: the granted answer carries Vary: Origin (this is what e050966 repaired).
	w := httptest.NewRecorder()
	req := httptest.NewRequest(http.MethodGet, "/p", nil)
	req.Header.Set("Origin", "https://good.example")
	r.ServeHTTP(w, req)
	if w.Header().Get("Access-Control-Allow-Origin") != "https://good.example" || !f1Has(w.Header(), "Origin") {
		t.Fatalf("sanity: granted answer wrong: %v", w.Header())
	}

	t.Run("simple request, origin refused", func(t *testing.T) {
		w := httptest.NewRecorder()
		req := httptest.NewRequest(http.MethodGet, "/p", nil)
		req.Header.Set("Origin", "https://evil.example")
		r.ServeHTTP(w, req)
		if w.Header().Get("Access-Control-Allow-Origin") != "" {
			t.Fatalf("origin must be refused: %v", w.Header())
		}
		// Same URL, same method, different answer depending on Origin => must vary on Origin,
		// otherwise a shared cache replays this ACAO-less answer to https://good.example.
		if !f1Has(w.Header(), "Origin") {
			t.Errorf("refused answer lacks Vary: Origin (Vary=%q)", f1Vary(w.Header()))
		}
	})

	t.Run("preflight, origin refused", func(t *testing.T) {
		w := httptest.NewRecorder()
		req := httptest.NewRequest(http.MethodOptions, "/p", nil)
		req.Header.Set("Origin", "https://evil.example")
		req.Header.Set("Access-Control-Request-Method", "DELETE")
		req.Header.Set("Access-Control-Request-Headers", "x-token")
		r.ServeHTTP(w, req)
		if !f1Has(w.Header(), "Origin") {
			t.Errorf("refused preflight lacks Vary: Origin (Vary=%q)", f1Vary(w.Header()))
		}
	})

	t.Run("preflight, header refused", func(t *testing.T) {
		w := httptest.NewRecorder()
		req := httptest.NewRequest(http.MethodOptions, "/p", nil)
		req.Header.Set("Origin", "https://good.example")
		req.Header.Set("Access-Control-Request-Method", "DELETE")
		req.Header.Set("Access-Control-Request-Headers", "x-other")
		r.ServeHTTP(w, req)
		if w.Header().Get("Access-Control-Allow-Origin") != "" {
			t.Fatalf("preflight must be refused: %v", w.Header())
		}
		if !f1Has(w.Header(), "Access-Control-Request-Headers") {
			t.Errorf("refusal caused by Access-Control-Request-Headers lacks Vary on it (Vary=%q)", f1Vary(w.Header()))
		}
	})

	t.Run("preflight, method refused", func(t *testing.T) {
		w := httptest.NewRecorder()
		req := httptest.NewRequest(http.MethodOptions, "/p", nil)
		req.Header.Set("Origin", "https://good.example")
		req.Header.Set("Access-Control-Request-Method", "PUT")
		r.ServeHTTP(w, req)
		if w.Header().Get("Access-Control-Allow-Origin") != "" {
			t.Fatalf("preflight must be refused: %v", w.Header())
		}
		if !f1Has(w.Header(), "Access-Control-Request-Method") {
			t.Errorf("refusal caused by Access-Control-Request-Method lacks Vary on it (Vary=%q)", f1Vary(w.Header()))
		}
	})
}
