package mux

// Finding 2 — commit f678e4e "fix: WithCORS keeps copies of the origin and
// header lists" is incomplete: the copies are taken inside the returned
// closure, i.e. each time the Option is *applied*, not when WithCORS is called.
// The closure keeps referring to the caller's slices. A Group stores its
// options and re-applies them in every Group.New, so editing (or simply
// re-using) the slice after WithCORS/NewGroup still changes which origins and
// headers routers created later grant — and routers of one group created from
// the same option end up with different CORS policies.

import (
	"net/http"
	"net/http/httptest"
	"testing"

	"github.com/issue9/mux/v9/types"
)

func f2Call(w http.ResponseWriter, r *http.Request, _ types.Route, h http.Handler) { h.ServeHTTP(w, r) }

func f2Status(code int) func(types.Node) http.Handler {
	return func(n types.Node) http.Handler {
		return http.HandlerFunc(func(w http.ResponseWriter, r *http.Request) { w.WriteHeader(code) })
	}
}

func f2ACAO(h http.Handler, origin string) string {
	w := httptest.NewRecorder()
	req := httptest.NewRequest(http.MethodGet, "/p", nil)
	req.Header.Set("Origin", origin)
	h.ServeHTTP(w, req)
	return w.Header().Get("Access-Control-Allow-Origin")
}

func f2Preflight(h http.Handler, origin, reqHeader string) string {
	w := httptest.NewRecorder()
	req := httptest.NewRequest(http.MethodOptions, "/p", nil)
	req.Header.Set("Origin", origin)
	req.Header.Set("Access-Control-Request-Method", "GET")
	req.Header.Set("Access-Control-Request-Headers", reqHeader)
	h.ServeHTTP(w, req)
	return w.Header().Get("Access-Control-Allow-Origin")
}

func TestFinding2_WithCORSStillAliasesCallerSlices_Group(t *testing.T) {
	ok := http.HandlerFunc(func(w http.ResponseWriter, r *http.Request) {})

	origins := []string{"https://good.example"}
	headers := []string{"X-Token"}
	g := NewGroup[http.Handler](f2Call, http.NotFoundHandler(), f2Status(405), f2Status(200),
		WithCORS(origins, headers, nil, 0, false))

	r1 := g.New("r1", MatcherFunc(func(r *http.Request, _ *types.Context) bool { return r.Host == "one.example" }))
	r1.Get("/p", ok)

	// The caller re-uses its slices for something else once WithCORS/NewGroup have returned.
	origins[0] = "https://evil.example"
	headers[0] = "X-Evil"

	r2 := g.New("r2", MatcherFunc(func(r *http.Request, _ *types.Context) bool { return r.Host == "two.example" }))
	r2.Get("/p", ok)

	// r1 was built before the edit: behaves as configured.
	if got := f2ACAO(r1, "https://good.example"); got != "https://good.example" {
		t.Fatalf("r1: good origin refused: %q", got)
	}

	// r2 comes from the very same option of the very same group, and must grant the same origins.
	if got := f2ACAO(r2, "https://good.example"); got != "https://good.example" {
		t.Errorf("r2: configured origin https://good.example is refused (ACAO=%q): WithCORS did not keep its own copy", got)
	}
	if got := f2ACAO(r2, "https://evil.example"); got != "" {
		t.Errorf("r2: origin written into the caller's slice after WithCORS/NewGroup is granted: ACAO=%q", got)
	}
	if got := f2Preflight(r2, "https://evil.example", "x-evil"); got != "" {
		t.Errorf("r2: header+origin written into the caller's slices after WithCORS/NewGroup are granted: ACAO=%q", got)
	}
}

func TestFinding2_WithCORSStillAliasesCallerSlices_Option(t *testing.T) {
	ok := http.HandlerFunc(func(w http.ResponseWriter, r *http.Request) {})

	origins := []string{"https://good.example"}
	opt := WithCORS(origins, nil, nil, 0, false) // "keeps copies" — but nothing has been copied yet
	origins[0] = "https://evil.example"

	r := NewRouter[http.Handler]("r", f2Call, http.NotFoundHandler(), f2Status(405), f2Status(200), opt)
	r.Get("/p", ok)

	if got := f2ACAO(r, "https://good.example"); got != "https://good.example" {
		t.Errorf("origin given to WithCORS is refused: ACAO=%q", got)
	}
	if got := f2ACAO(r, "https://evil.example"); got != "" {
		t.Errorf("origin written into the slice after WithCORS returned is granted: ACAO=%q", got)
	}
}
