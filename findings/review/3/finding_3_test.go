package mux

// Finding 3 (low severity) — commit 5078886 "fix: a preflight with several
// Access-Control-Request-Method lines is refused" is incomplete: the line count
// is checked only inside `if preflight`, and `preflight` itself is still decided
// from the FIRST line only (r.Header.Get(...) != ""). When the first of several
// lines is empty the request is not regarded as a preflight at all, the new
// check is never reached, and the OPTIONS request that does carry
// "Access-Control-Request-Method: DELETE" is answered with
// Access-Control-Allow-Origin instead of being refused — although DELETE is not
// even a method of the route.

import (
	"net/http"
	"net/http/httptest"
	"testing"

	"github.com/issue9/mux/v9/types"
)

func TestFinding3_SeveralRequestMethodLines_FirstEmpty(t *testing.T) {
	call := func(w http.ResponseWriter, r *http.Request, _ types.Route, h http.Handler) { h.ServeHTTP(w, r) }
	status := func(code int) func(types.Node) http.Handler {
		return func(types.Node) http.Handler {
			return http.HandlerFunc(func(w http.ResponseWriter, r *http.Request) { w.WriteHeader(code) })
		}
	}
	r := NewRouter[http.Handler]("f3", call, http.NotFoundHandler(), status(405), status(200),
		WithCORS([]string{"https://good.example"}, nil, nil, 0, true))
	r.Get("/p", http.HandlerFunc(func(w http.ResponseWriter, r *http.Request) {}))

	do := func(lines ...string) http.Header {
		w := httptest.NewRecorder()
		req := httptest.NewRequest(http.MethodOptions, "/p", nil)
		req.Header.Set("Origin", "https://good.example")
		for _, l := range lines {
			req.Header.Add("Access-Control-Request-Method", l)
		}
		r.ServeHTTP(w, req)
		return w.Header()
	}

	// What the commit repaired: refused.
	if h := do("GET", "DELETE"); h.Get("Access-Control-Allow-Origin") != "" {
		t.Fatalf("sanity: two lines must be refused: %v", h)
	}
	// A single line naming a method the route does not have: refused.
	if h := do("DELETE"); h.Get("Access-Control-Allow-Origin") != "" {
		t.Fatalf("sanity: DELETE must be refused: %v", h)
	}

	// Same thing with an empty line in front: several lines, and a method the route does not have.
	if h := do("", "DELETE"); h.Get("Access-Control-Allow-Origin") != "" {
		t.Errorf("several Access-Control-Request-Method lines (\"\", \"DELETE\") are not refused: %v", h)
	}
}
