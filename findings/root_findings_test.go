package mux

// Demonstrations of defects found by failing obligations (see DESIGN.md section 1). Each test fails on the
// pinned tree and passes after the corresponding "fix:" commit. Run: bin/ovtest /repo . TestFinding findings/*.go
import (
	"net/http"
	"net/http/httptest"
	"strings"
	"testing"

	"github.com/issue9/mux/v9/types"
)

type fRec struct {
	pattern string
	params  map[string]string
	status  int
	allow   string
}

func fRouter(t *testing.T, o ...Option) (*Router[http.Handler], *fRec) {
	rec := &fRec{}
	call := func(w http.ResponseWriter, r *http.Request, ps types.Route, h http.Handler) {
		rec.params = map[string]string{}
		ps.Params().Range(func(k, v string) { rec.params[k] = v })
		rec.pattern = ""
		if ps.Node() != nil {
			rec.pattern = ps.Node().Pattern()
		}
		h.ServeHTTP(w, r)
	}
	nf := http.HandlerFunc(func(w http.ResponseWriter, r *http.Request) { w.WriteHeader(404) })
	m405 := func(n types.Node) http.Handler {
		return http.HandlerFunc(func(w http.ResponseWriter, r *http.Request) { w.Header().Set("Allow", n.AllowHeader()); w.WriteHeader(405) })
	}
	opt := func(n types.Node) http.Handler {
		return http.HandlerFunc(func(w http.ResponseWriter, r *http.Request) { w.Header().Set("Allow", n.AllowHeader()); w.WriteHeader(200) })
	}
	return NewRouter[http.Handler]("f", call, nf, m405, opt, o...), rec
}

func fServe(r http.Handler, method, path string) *httptest.ResponseRecorder {
	req := httptest.NewRequest(method, "http://x/", nil)
	req.URL.Path = path
	w := httptest.NewRecorder()
	r.ServeHTTP(w, req)
	return w
}

var fOK = http.HandlerFunc(func(w http.ResponseWriter, r *http.Request) { w.WriteHeader(200) })

// D1 (C01): stale/missing params after abandoning a sibling parameter branch
func TestFindingD01(t *testing.T) {
	r, rec := fRouter(t)
	r.Get("/users/{id}/{page:\\d+}", fOK)
	r.Get("/users/{id}/{action}/log", fOK)
	w := fServe(r, "GET", "/users/5/7/log")
	if w.Code != 200 || rec.params["id"] != "5" || rec.params["action"] != "7" || len(rec.params) != 2 {
		t.Fatalf("status=%d pattern=%q params=%v", w.Code, rec.pattern, rec.params)
	}
}

// D2 (C02): literal text after a regexp parameter must match byte for byte
func TestFindingD02(t *testing.T) {
	r, _ := fRouter(t)
	r.Get("/pages/{id:\\d+}.html", fOK)
	if w := fServe(r, "GET", "/pages/5xhtml"); w.Code != 404 {
		t.Fatalf("/pages/5xhtml served with status %d", w.Code)
	}
}

// D3 (C02): overlapping occurrences of the suffix must all be tried
func TestFindingD03(t *testing.T) {
	r, rec := fRouter(t, WithDigitInterceptor("digit"))
	r.Get("/{id:digit}00", fOK)
	if w := fServe(r, "GET", "/000"); w.Code != 200 || rec.params["id"] != "0" {
		t.Fatalf("status=%d params=%v", w.Code, rec.params)
	}
}

// D4 (C03,C14): stale first-byte index after removing one of >= 6 literal siblings
func TestFindingD04(t *testing.T) {
	r, _ := fRouter(t)
	for _, p := range []string{"/a", "/b", "/c", "/d", "/e", "/f"} {
		r.Get(p, fOK)
	}
	r.Get("/{id}", fOK)
	r.Remove("/a")
	func() {
		defer func() {
			if e := recover(); e != nil {
				t.Fatalf("panic: %v", e)
			}
		}()
		if w := fServe(r, "GET", "/zzz"); w.Code != 200 {
			t.Fatalf("/zzz -> %d", w.Code)
		}
		if w := fServe(r, "GET", "/a"); w.Code != 200 {
			t.Fatalf("/a -> %d (should now be served by /{id})", w.Code)
		}
	}()
}

// D5 (C03,C05): Clean() with >= 5 children leaves the index behind
func TestFindingD05(t *testing.T) {
	r, _ := fRouter(t)
	for _, p := range []string{"/a", "b", "c", "d", "e", "f"} {
		r.Get(p, fOK)
	}
	r.Clean()
	defer func() {
		if e := recover(); e != nil {
			t.Fatalf("panic after Clean: %v", e)
		}
	}()
	if w := fServe(r, "GET", "/a"); w.Code != 404 {
		t.Fatalf("status %d", w.Code)
	}
}

// D6 (C03,C04): with WithTrace a fully removed pattern stays in Routes()
func TestFindingD06(t *testing.T) {
	r, _ := fRouter(t, WithTrace[http.Handler](fOK))
	r.Get("/a", fOK).Get("/a/y", fOK)
	r.Remove("/a") // node /a stays as an inner node
	if _, found := r.Routes()["/a"]; found {
		t.Fatalf("removed /a still listed: %v", r.Routes())
	}
}

// D7 (C04): Allow of a pattern whose node was split after its OPTIONS/405 handlers were built
func TestFindingD07(t *testing.T) {
	r, _ := fRouter(t)
	r.Get("/posts/author", fOK)
	r.Get("/posts/abc", fOK)
	r.Post("/posts/author", fOK)
	w := fServe(r, "OPTIONS", "/posts/author")
	if a := w.Header().Get("Allow"); !strings.Contains(a, "POST") {
		t.Fatalf("Allow = %q", a)
	}
}

// D8 (C04): OPTIONS * after Remove(pattern) / Clean
func TestFindingD08(t *testing.T) {
	r, _ := fRouter(t)
	r.Get("/a", fOK)
	r.Remove("/a")
	if a := fServe(r, "OPTIONS", "*").Header().Get("Allow"); strings.Contains(a, "GET") {
		t.Fatalf("after Remove(/a): Allow = %q", a)
	}
	r.Post("/b", fOK)
	r.Clean()
	if a := fServe(r, "OPTIONS", "*").Header().Get("Allow"); strings.Contains(a, "POST") {
		t.Fatalf("after Clean: Allow = %q", a)
	}
	r.Get("/c", fOK)
	r.Remove("/c", "DELETE") // never registered
	r.Delete("/d", fOK)
	if a := fServe(r, "OPTIONS", "*").Header().Get("Allow"); !strings.Contains(a, "DELETE") {
		t.Fatalf("after removing an absent method: Allow = %q", a)
	}
}

// D9 (C04,C07,C18): a fresh router answers OPTIONS * with OPTIONS
func TestFindingD09(t *testing.T) {
	r, _ := fRouter(t, WithTrace[http.Handler](fOK))
	if a := fServe(r, "OPTIONS", "*").Header().Get("Allow"); a != "OPTIONS, TRACE" {
		t.Fatalf("fresh router: Allow = %q", a)
	}
}

// D10 (C05): GET * / empty path must not call a nil handler
func TestFindingD10(t *testing.T) {
	r, _ := fRouter(t)
	for _, p := range []string{"*", ""} {
		func() {
			defer func() {
				if e := recover(); e != nil {
					t.Fatalf("GET %q panics: %v", p, e)
				}
			}()
			fServe(r, "GET", p)
		}()
	}
}

// D11 (C05,C08): Remove(p, "") / Remove(p, "HEAD")
func TestFindingD11(t *testing.T) {
	r, _ := fRouter(t)
	r.Get("/a", fOK)
	r.Remove("/a", "")
	func() {
		defer func() {
			if e := recover(); e != nil {
				t.Fatalf("POST /a panics after Remove(/a, \"\"): %v", e)
			}
		}()
		if w := fServe(r, "POST", "/a"); w.Code != 405 {
			t.Fatalf("POST /a -> %d", w.Code)
		}
	}()
	r.Remove("/a", "HEAD")
	if w := fServe(r, "HEAD", "/a"); w.Code != 200 {
		t.Fatalf("HEAD /a -> %d while GET is registered", w.Code)
	}
}

// D14-D16 (C10): strict URL building
func TestFindingD14(t *testing.T) {
	r, _ := fRouter(t)
	r.Get("/p/{id:\\d+}", fOK)
	if u, err := r.URL(true, "/p/{id:\\d+}", map[string]string{"id": "abc5"}); err == nil {
		t.Fatalf("accepted: %q", u)
	}
}

func TestFindingD15(t *testing.T) {
	r, _ := fRouter(t, WithDigitInterceptor("digit"))
	r.Get("/posts/{id:digit}/author", fOK)
	u, err := r.URL(true, "/posts/{id:digit}/author", map[string]string{"id": "5"})
	if err != nil || u != "/posts/5/author" {
		t.Fatalf("u=%q err=%v", u, err)
	}
	if u, err := r.URL(true, "/posts/{id:digit}/author", map[string]string{"id": "x"}); err == nil {
		t.Fatalf("accepted: %q", u)
	}
}

func TestFindingD16(t *testing.T) {
	r, _ := fRouter(t)
	if u, err := r.URL(true, "/nope", nil); err == nil {
		t.Fatalf("strict URL of an unregistered pattern accepted: %q", u)
	}
}

// D19 (C13)
func TestFindingD19(t *testing.T) {
	call := func(w http.ResponseWriter, r *http.Request, ps types.Route, h http.Handler) { h.ServeHTTP(w, r) }
	nf := http.HandlerFunc(func(w http.ResponseWriter, r *http.Request) { w.WriteHeader(404) })
	b := func(n types.Node) http.Handler { return nf }
	g := NewGroup[http.Handler](call, nf, b, b)
	r1 := g.New("r1", AndMatcher(NewPathVersion("", "v1"), NewHosts(false, "a.com")))
	r1.Get("/x", fOK)
	r2 := g.New("r2", NewPathVersion("", "v1"))
	r2.Get("/x", fOK)
	req := httptest.NewRequest("GET", "http://b.com/v1/x", nil)
	w := httptest.NewRecorder()
	g.ServeHTTP(w, req)
	if w.Code != 200 {
		t.Fatalf("status %d", w.Code)
	}
}

// D20 (C14)
func TestFindingD20(t *testing.T) {
	h := NewHosts(false, "API.example.com")
	h.Delete("API.example.com")
	req := httptest.NewRequest("GET", "http://api.example.com/", nil)
	ctx := types.NewContext()
	if h.Match(req, ctx) {
		t.Fatalf("still matches after Delete")
	}
}

// D21 (C17)
func TestFindingD21(t *testing.T) {
	r, _ := fRouter(t)
	func() {
		defer func() { recover() }()
		r.Handle("/a", fOK, nil, "GET", "BOGUS")
	}()
	if w := fServe(r, "GET", "/a"); w.Code != 404 {
		t.Fatalf("rejected Handle left GET /a -> %d; routes %v", w.Code, r.Routes())
	}
}

// D22 (C17)
func TestFindingD22(t *testing.T) {
	r, _ := fRouter(t)
	r.Get("/u/{a:}/x", fOK)
	defer func() {
		if recover() == nil {
			t.Fatalf("/u/{b:}/x accepted although identical up to the parameter name")
		}
	}()
	r.Get("/u/{b:}/x", fOK)
}

// D23 (C18)
func TestFindingD23(t *testing.T) {
	w := httptest.NewRecorder()
	Trace(w, httptest.NewRequest("TRACE", "/x", nil), false)
	if ct := w.Result().Header.Get("Content-Type"); ct != "message/http" {
		t.Fatalf("Content-Type as sent: %q", ct)
	}
}
